# table of claimed checks; executed by gen_manifest.py
e1("C01", "CrossHair/z3 bounded symbolic execution of HsmEventProcessor.dispatch/trans_ over a symbolic chart family, exact action-log oracle")
e1("C02", "CrossHair/z3 bounded symbolic execution of dispatch's outward search over symbolic per-state reaction vectors")
e1("C03", "CrossHair/z3 bounded symbolic execution of start_at/init over symbolic start depth and initial-transition hops")
e1("C24", "CrossHair/z3 bounded symbolic execution of start_at/dispatch on charts with one symbolic malformation, call-count hang detection")
e1("C14", "CrossHair/z3 bounded symbolic execution of one or two queued-chart operations from a symbolic queue pre-state, deque reference model")
e1("C15", "CrossHair/z3 bounded symbolic execution of defer/recall/post/step pairs from symbolic pending/deferred pre-states, two-deque reference model")
e1("C16", "CrossHair/z3 bounded symbolic execution of one LockingDeque / post operation from a symbolic (capacity, length, token balance, consumer regime) pre-state")
