# table of claimed checks; executed by gen_manifest.py
e1("C01", "CrossHair/z3 bounded symbolic execution of HsmEventProcessor.dispatch/trans_ over a symbolic chart family, exact action-log oracle")
