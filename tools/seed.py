#!/usr/bin/env python3
"""Seeded-change bookkeeping.

  seed.py confirm <worktree> <i> <PID> <name>   confirm a sub-agent's change in ITS scratch worktree (demo passes without,
                                                 fails with; pinned suite still passes with) and store it as seeded/<name>/
  seed.py detect <name> <check ids...>          apply seeded/<name>/patch.diff to /repo, run the quick checks, undo, record
"""
import json
import os
import shutil
import subprocess
import sys
import tempfile
import time
import xml.etree.ElementTree as ET

VERIF = os.path.dirname(os.path.dirname(os.path.abspath(__file__)))


def sh(cmd, cwd=None, timeout=1800, env=None):
  p = subprocess.run(cmd, shell=True, cwd=cwd, stdout=subprocess.PIPE, stderr=subprocess.STDOUT, timeout=timeout, env=env)
  return p.returncode, p.stdout.decode(errors="replace")


def suite(wt):
  base = json.load(open("/root/.vp/BASELINE.json"))
  fd, junit = tempfile.mkstemp(suffix=".xml"); os.close(fd)
  rc, out = sh("/venv/bin/python -m pytest -ra -q -p no:cacheprovider --timeout=900 --continue-on-collection-errors --junitxml=%s" % junit, cwd=wt)
  passed = set()
  for tc in ET.parse(junit).getroot().iter("testcase"):
    if not any(c.tag in ("failure", "error", "skipped") for c in tc):
      passed.add("%s::%s" % (tc.get("classname"), tc.get("name")))
  os.unlink(junit)
  missing = [t for t in base["stable_pass"] if t not in passed]
  # several suite tests assert on what happened within time.sleep(0.01): under machine load they fail on unchanged code too.
  # A test that is missing from the pass set is re-run alone, up to three times, before it counts as failing.
  still = []
  for t in missing:
    mod, name = t.rsplit("::", 1)
    path = mod.replace(".", "/") + ".py::" + name
    ok = False
    for _ in range(3):
      rc, out = sh("/venv/bin/python -m pytest -q -p no:cacheprovider --timeout=900 %s" % path, cwd=wt)
      if rc == 0:
        ok = True
        break
    if not ok:
      still.append(t)
  return still


def confirm(wt, i, pid, name):
  d = os.path.join(VERIF, "seeded", name)
  os.makedirs(d, exist_ok=True)
  diff, demo = os.path.join(wt, "mutant_%s.diff" % i), os.path.join(wt, "demo_%s.py" % i)
  sh("git checkout -- .", cwd=wt)
  rc0, out0 = sh("/venv/bin/python %s" % demo, cwd=wt, timeout=120)
  rca, outa = sh("git apply %s" % diff, cwd=wt)
  rc1, out1 = sh("/venv/bin/python %s" % demo, cwd=wt, timeout=120)
  missing = suite(wt)
  if missing:   # flaky threaded tests: one retry
    missing = suite(wt)
  sh("git checkout -- .", cwd=wt)
  ok = (rc0 == 0 and rca == 0 and rc1 != 0 and not missing)
  shutil.copy(diff, os.path.join(d, "patch.diff"))
  shutil.copy(demo, os.path.join(d, "demo.py"))
  meta = {"property": pid, "name": name, "confirmed": ok,
          "demo_without_change_exit": rc0, "demo_with_change_exit": rc1, "demo_with_change_output": out1[-600:],
          "suite_with_change_missing_from_stable_pass": missing,
          "what_i_ran": ["in the sub-agent's scratch worktree: demo on clean tree, git apply, demo again, pinned pytest suite compared with BASELINE.stable_pass, checkout"],
          "confirmed_at": time.strftime("%Y-%m-%dT%H:%M:%S")}
  mp = os.path.join(d, "meta.json")
  if os.path.exists(mp):
    old = json.load(open(mp)); old.update(meta); meta = old
  json.dump(meta, open(mp, "w"), indent=1)
  print(name, "CONFIRMED" if ok else "NOT CONFIRMED", "demo %d->%d" % (rc0, rc1), "missing", missing)
  return ok


def detect(name, checks, tier="quick"):
  """run the checks against a scratch worktree of /repo HEAD carrying the seeded change (VERIF_REPO), so that /repo itself
  stays untouched while other work goes on; `final` does the same by applying to /repo itself."""
  d = os.path.join(VERIF, "seeded", name)
  wt = "/tmp/seedwt_%s_%d" % (name, os.getpid())
  base = os.environ.get("SEED_BASE", "HEAD")     # a change made against an older tree (before a later fix: commit) is checked on that tree
  rc, out = sh("git -C /repo worktree add -q --detach %s %s" % (wt, base))
  if rc != 0:
    print("cannot create worktree", out); return 2
  results = {}
  try:
    rc, out = sh("git apply %s" % os.path.join(d, "patch.diff"), cwd=wt)
    if rc != 0:
      rc, out = sh("git apply -3 %s" % os.path.join(d, "patch.diff"), cwd=wt)
      if rc != 0:
        print("patch does not apply:", out[-500:]); return 2
    evd = tempfile.mkdtemp(prefix="seedev_")
    env = dict(os.environ); env["VERIF_REPO"] = wt; env["VERIF_EVIDENCE_DIR"] = evd
    for c in checks:
      t0 = time.time()
      rc, out = sh("./check %s --tier %s" % (c, tier), cwd=VERIF, timeout=7200, env=env)
      lines = [l for l in out.splitlines() if l.startswith(("VIOLATION", "INCONCLUSIVE", "OK ", "KNOWN-FINDING"))]
      results[c] = {"exit": rc, "wall_s": round(time.time() - t0, 1), "lines": [l.replace(evd, "<evidence>") for l in lines[:4]],
                    "detail": [l for l in out.splitlines() if l.startswith("  ")][:3]}
      print(name, c, "exit", rc, lines[:2])
    shutil.rmtree(evd, ignore_errors=True)
  finally:
    sh("git -C /repo worktree remove --force %s" % wt)
  mp = os.path.join(d, "meta.json")
  meta = json.load(open(mp)) if os.path.exists(mp) else {"name": name}
  meta.setdefault("detection", {})
  for c, r in results.items():
    meta["detection"]["%s/%s" % (c, tier)] = r
  meta["detected_by"] = sorted({k.split("/")[0] for k, r in meta["detection"].items() if r["exit"] == 1})
  meta.setdefault("what_i_ran", []).append("checks %s (%s) with VERIF_REPO = scratch worktree of /repo %s + patch.diff" % (
    checks, tier, ("HEAD " + sh("git -C /repo log --format=%h -1")[1].strip()) if base == "HEAD" else ("at commit " + base + " (the tree the change was written against)")))
  json.dump(meta, open(mp, "w"), indent=1)
  return 0


if __name__ == "__main__":
  if sys.argv[1] == "confirm":
    sys.exit(0 if confirm(sys.argv[2], sys.argv[3], sys.argv[4], sys.argv[5]) else 1)
  elif sys.argv[1] == "detect":
    tier = os.environ.get("SEED_TIER", "quick")
    sys.exit(detect(sys.argv[2], sys.argv[3:], tier))
