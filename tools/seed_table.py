#!/usr/bin/env python3
"""print the table of seeded changes and the checks that catch them (from seeded/*/meta.json), for DESIGN.md 10.5"""
import glob
import json
import os

HERE = os.path.dirname(os.path.dirname(os.path.abspath(__file__)))
rows = []
for mp in sorted(glob.glob(os.path.join(HERE, "seeded", "*", "meta.json"))):
  m = json.load(open(mp))
  det = m.get("detection", {})
  caught = sorted({k.split("/")[0] + ("" if k.endswith("/quick") else " (thorough)") for k, r in det.items() if r["exit"] == 1})
  ran = sorted({k.split("/")[0] for k in det})
  missed = [c for c in ran if not any(x.startswith(c) for x in caught)]
  incon = sorted({k.split("/")[0] for k, r in det.items() if r["exit"] == 2})
  note = m.get("note", "")
  rows.append((m.get("name"), m.get("property"), "yes" if m.get("confirmed") else "NO", ", ".join(caught) or "-", ", ".join(c for c in missed if c not in incon) or "-",
               ", ".join(incon) or "-", (m.get("needs") or note or "")[:140]))
print("| change | property | confirmed | caught by | ran, not caught | inconclusive | needs / note |")
print("|---|---|---|---|---|---|---|")
for r in rows:
  print("| " + " | ".join(r) + " |")
