#!/usr/bin/env python3
"""Run the repository's pinned test suite (guard off) and compare with /root/.vp/BASELINE.json stable_pass."""
import json, os, subprocess, sys, tempfile, xml.etree.ElementTree as ET
base = json.load(open("/root/.vp/BASELINE.json"))
fd, junit = tempfile.mkstemp(suffix=".xml"); os.close(fd)
env = dict(os.environ); env.pop("MIROS_VERIF", None)
cmd = "cd /repo && /venv/bin/python -m pytest -ra -q -p no:cacheprovider --timeout=900 --continue-on-collection-errors --junitxml=%s" % junit
p = subprocess.run(cmd, shell=True, env=env, stdout=subprocess.PIPE, stderr=subprocess.STDOUT)
passed = set()
for tc in ET.parse(junit).getroot().iter("testcase"):
  if not any(c.tag in ("failure", "error", "skipped") for c in tc):
    passed.add("%s::%s" % (tc.get("classname"), tc.get("name")))
os.unlink(junit)
missing = [t for t in base["stable_pass"] if t not in passed]
print("passed %d; stable baseline %d; missing from pass set: %d" % (len(passed), len(base["stable_pass"]), len(missing)))
for m in missing: print("  MISSING", m)
if missing:
  print(p.stdout.decode()[-3000:])
sys.exit(1 if missing else 0)
