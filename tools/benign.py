#!/usr/bin/env python3
"""behaviour-preserving changes (written by sub-agents that saw only the library): every check must still exit 0 on them.
usage: benign.py run <label> <diff>[,<diff>...] <check>...   - applies the diffs together to a scratch worktree of /repo HEAD (VERIF_REPO),
runs the quick tier of the checks, prints one line per check and appends the outcome to seeded/benign/results.json"""
import json, os, shutil, subprocess, sys, tempfile, time
VERIF = os.path.dirname(os.path.dirname(os.path.abspath(__file__)))


def sh(cmd, cwd=None, timeout=7200, env=None):
  p = subprocess.run(cmd, shell=True, cwd=cwd, stdout=subprocess.PIPE, stderr=subprocess.STDOUT, text=True, timeout=timeout, env=env)
  return p.returncode, p.stdout


def run(label, diffs, checks, tier="quick"):
  wt = "/tmp/benignwt_%s_%d" % (label, os.getpid())
  rc, out = sh("git -C /repo worktree add -q --detach %s HEAD" % wt)
  if rc:
    print("cannot create worktree", out); return 2
  results = {}
  try:
    for d in diffs:
      rc, out = sh("git apply %s" % os.path.join(VERIF, "seeded", "benign", d), cwd=wt)
      if rc:
        print("diff %s does not apply together with the others: %s" % (d, out[-300:])); return 2
    evd = tempfile.mkdtemp(prefix="benignev_")
    env = dict(os.environ); env["VERIF_REPO"] = wt; env["VERIF_EVIDENCE_DIR"] = evd
    for c in checks:
      t0 = time.time()
      rc, out = sh("./check %s --tier %s" % (c, tier), cwd=VERIF, env=env)
      lines = [l for l in out.splitlines() if l.startswith(("VIOLATION", "INCONCLUSIVE", "OK ", "KNOWN-FINDING"))]
      results[c] = {"exit": rc, "wall_s": round(time.time() - t0, 1), "lines": [l.replace(evd, "<evidence>")[:400] for l in lines[:4]]}
      print(label, c, "exit", rc, [l[:200] for l in lines if not l.startswith("KNOWN")][:2], flush=True)
    shutil.rmtree(evd, ignore_errors=True)
  finally:
    sh("git -C /repo worktree remove --force %s" % wt)
  rp = os.path.join(VERIF, "seeded", "benign", "results.json")
  allr = json.load(open(rp)) if os.path.exists(rp) else {}
  allr[label] = {"diffs": diffs, "tier": tier, "repo_head": sh("git -C /repo log --format=%h -1")[1].strip(), "checks": results}
  json.dump(allr, open(rp, "w"), indent=1, sort_keys=True)
  return 0 if all(r["exit"] == 0 for r in results.values()) else 1


if __name__ == "__main__":
  if sys.argv[1] == "run":
    sys.exit(run(sys.argv[2], sys.argv[3].split(","), sys.argv[4:], os.environ.get("SEED_TIER", "quick")))
