#!/usr/bin/env python3
"""print the prompt given to a fresh sub-agent for one property (text of the property only, nothing from /verif)"""
import json, sys
pid, wt = sys.argv[1], sys.argv[2]
p = [json.loads(l) for l in open('/verif/properties.jsonl') if json.loads(l)['id'] == pid][0]
print(f"""You are helping evaluate a verification effort for the Python library aleph2c/miros (a UML statechart library: Samek-style hierarchical state machine event processor, threaded active objects, a pub-sub fabric, timed events).

Your own scratch git worktree of the repository is at {wt} . Work ONLY inside that directory (do not touch /repo, do not read or touch /verif). Python to use: /venv/bin/python . Run things from inside the worktree with `cd {wt} && /venv/bin/python ...` so that `import miros` resolves to {wt}/miros (check with `/venv/bin/python -c "import miros; print(miros.__file__)"`). There is no network.

Here is a semantic property of miros that is supposed to hold:

  Title: {p['title']}
  Statement: {p['statement']}
  Quantified over: {p['quantifier']['text']}
  Code it is anchored in: {json.dumps([m.get('where') for m in p['anchors']['mechanism']])}

TASK: produce TWO different, independent, realistic changes (bugs) to the library source under {wt}/miros/ that each BREAK this property, while the library still imports and the existing test suite still passes. Each should be the kind of mistake a maintainer could plausibly make in a refactoring or "optimisation" (an off-by-one, a wrong comparison, a dropped branch, a reordered pair of statements, a stale variable, a missing reset, ...). IMPORTANT: each change must need something SPECIFIC to manifest - a particular chart shape or depth, a multi-step sequence of operations, an unusual input, a particular interleaving, or two cooperating sites that each look fine alone - NOT something that ordinary use or the simplest example would expose at once. The two changes should break the property through different mechanisms / code sites.

For each change i in (1, 2):
 1. Start from a clean tree (`git -C {wt} checkout -- .`), make the change, and save it as {wt}/mutant_i.diff (output of `git -C {wt} diff`).
 2. Write a small stand-alone demonstration program {wt}/demo_i.py that exits 0 (prints PASS) on the ORIGINAL code and exits non-zero (prints FAIL and why) WITH the change applied. It must be deterministic and finish within ~20 seconds; use only the library's public API plus the standard library.
 3. Confirm yourself: (a) with the change applied the existing suite still passes: `cd {wt} && /venv/bin/python -m pytest -q -p no:cacheprovider --timeout=900 -x -q 2>&1 | tail -5` (takes about a minute; the test test/crypto_test.py::test_cryptography fails on the original code too - ignore it, e.g. add `--deselect test/crypto_test.py::test_cryptography`; test_group_4 and test_group_14 in comprehensive_hsm_test are flaky); (b) demo_i.py fails with the change and passes without it.
 4. Finish with the worktree clean again (`git -C {wt} checkout -- .`), leaving only the untracked files mutant_1.diff, demo_1.py, mutant_2.diff, demo_2.py.

Report back, briefly, for each change: what it changes (file/function), why it breaks the property, what specific circumstance is needed for it to show, and the exact commands you ran with their outcomes. If you could only produce one valid change, say so honestly.""")
