#!/usr/bin/env python3
"""Regenerate /verif/MANIFEST.json from the table below and validate it against the schema."""
import json
import os
import sys

HERE = os.path.dirname(os.path.dirname(os.path.abspath(__file__)))

E1_TEXT = ("bounded symbolic execution of the real functions: every path over the stated parameter ranges is "
           "confirmed by CrossHair/z3 (per-partition verdict 'Confirmed over all paths', harness invocations cross-checked "
           "against the independently computed number of parameter tuples); counterexamples are replayed on /repo outside "
           "CrossHair before they are reported")
E1_NOTE = ("trusts CrossHair 0.0.110 + z3 5.1.0 path exhaustion, the oracle written from the property statement, and the stubs "
           "listed in the evidence file's assumptions; nothing is claimed outside the stated bounds")
E2_TEXT = ("bounded model checking of thread interleavings: the kernel functions are re-read from /repo's source on every run, "
           "translated to a step machine (one shared operation per step) and unrolled into a QF_BV query per scenario and question; "
           "unsat = holds for every schedule up to K steps, sat = a schedule that is replayed on the real functions")
E2_NOTE = ("trusts the translator (validated on every run by differential execution against the real objects), the model objects for "
           "queue.Queue/deque/threading.Event/RLock/Thread (documented contracts, GIL-atomic single calls), z3; bounded by K steps and the "
           "stated number of threads")

# id -> (engine, technique, design_ref, extra level text)
CHECKS = {}


def e1(pid, technique, extra=""):
  CHECKS[pid] = ("E1", technique, "DESIGN.md section 6 / " + pid, extra)


def e2(pid, technique, extra=""):
  CHECKS[pid] = ("E2", technique, "DESIGN.md section 6 / " + pid, extra)


def both(pid, technique, extra=""):
  CHECKS[pid] = ("E1+E2", technique, "DESIGN.md section 6 / " + pid, extra)


NOT_APPLICABLE = {}

# ---- table -------------------------------------------------------------------------------
exec(open(os.path.join(HERE, "tools", "manifest_table.py")).read())
# ---------------------------------------------------------------------------------------------

props = [json.loads(l)["id"] for l in open(os.path.join(HERE, "properties.jsonl"))]
checks = []
for pid in props:
  if pid not in CHECKS:
    continue
  eng, tech, ref, extra = CHECKS[pid]
  if eng == "E1":
    cat, text, note = "other", E1_TEXT, E1_NOTE
  elif eng == "E2":
    cat, text, note = "model_checking", E2_TEXT, E2_NOTE
  else:
    cat, text, note = "other", E1_TEXT + "; plus, for the schedule part: " + E2_TEXT, E1_NOTE + "; " + E2_NOTE
  if extra:
    text = text + ". " + extra
  checks.append({
    "property_id": pid,
    "quick_cmd": "./check %s --tier quick" % pid,
    "thorough_cmd": "./check %s --tier thorough" % pid,
    "evidence_file": "/verif/evidence/%s.json" % pid,
    "replay_cmd_template": "./check %s --replay {path}" % pid,
    "engine": eng,
    "level_claimed": {"category": cat, "text": text, "design_ref": ref},
    "level_note": note,
    "technique": tech,
  })

na = [{"property_id": p, "reason": NOT_APPLICABLE.get(p, "check not built yet in this session; no claim is made")}
      for p in props if p not in CHECKS]

man = {
  "version": 1,
  "setup_cmd": "./setup.sh",
  "hooks": {
    "guard": "MIROS_VERIF",
    "enable": "no source hooks: every stub is installed from the harness by assigning module globals / class attributes of the imported miros modules",
    "baseline_off_cmd": "cd /repo && /venv/bin/python -m pytest -ra -q -p no:cacheprovider --timeout=900 --continue-on-collection-errors",
    "source_commits": [],
    "add_only": True,
  },
  "engines": [
    {"name": "E1", "path": "vf/driver.py, vf/worker.py, vf/core.py, vf/charts.py, vf/props/",
     "serves_properties": [p for p in props if p in CHECKS and "E1" in CHECKS[p][0]],
     "kind_free_text": "CrossHair (z3) symbolic execution of the real miros functions, per-partition path exhaustion, replay of counterexamples"},
    {"name": "E2", "path": "vf/e2/",
     "serves_properties": [p for p in props if p in CHECKS and "E2" in CHECKS[p][0]],
     "kind_free_text": "pysched: Python source -> step machine -> bit-vector bounded model checking over schedules with z3"},
  ],
  "checks": checks,
  "notes": "Exit codes of ./check: 0 held (possibly with KNOWN-FINDING lines), 1 VIOLATION (replayed on /repo), 2 inconclusive. "
           "known_findings.json lists recorded and fixed defects.",
  "not_applicable": na,
}
out = os.path.join(HERE, "MANIFEST.json")
with open(out, "w") as f:
  json.dump(man, f, indent=1)
try:
  import jsonschema
  jsonschema.validate(man, json.load(open("/root/.vp/MANIFEST.schema.json")))
  print("MANIFEST.json valid: %d checks, %d not applicable" % (len(checks), len(na)))
except ImportError:
  print("written (jsonschema not available to validate)")
