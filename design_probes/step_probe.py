from typing import List
from collections import deque
from miros.event import Event, signals, return_status
from miros.hsm import HsmWithQueues, spy_on
import q_probe, os

def one_step(npre: int, nd: int, op: int, s1: int, s2: int, instr: bool) -> bool:
    '''
    pre: 0 <= npre <= 3 and 0 <= nd <= 3
    pre: 0 <= op <= 5 and -1 <= s1 <= 1 and -1 <= s2 <= 1
    post: _
    '''
    with open('/tmp/probe/paths.cnt','a') as f: f.write('x')
    log = []
    pre = [10 + i for i in range(npre)]; dpre = [20 + i for i in range(nd)]
    HsmWithQueues.QUEUE_SIZE = 3
    c = HsmWithQueues()
    script = {}
    c.start_at(q_probe.mkchart(instr, log, script))
    for p in pre: c.queue.append(Event(signal='Q', payload=p))
    for p in dpre: c.defer_queue.append(Event(signal='Q', payload=p))
    model = deque(pre, maxlen=3); dq = deque(dpre, maxlen=3); mlog = []
    if pre:
        script[pre[0]] = [(k, 1000 + i) for i, k in enumerate((s1, s2)) if k >= 0]
    n = 77
    if op == 0: c.post_fifo(Event(signal='Q', payload=n)); model.append(n)
    elif op == 1: c.post_lifo(Event(signal='Q', payload=n)); model.appendleft(n)
    elif op == 2:
        c.next_rtc()
        if model:
            x = model.popleft(); mlog.append(x)
            for k, pl in script.get(x, ()):
                (model.append if k == 0 else model.appendleft)(pl)
    elif op == 4: c.defer(Event(signal='Q', payload=n)); dq.append(n)
    elif op == 5:
        r = c.recall()
        if dq:
            x = dq.popleft(); model.append(x)
            if r is None or r.payload != x: return False
        elif r is not None: return False
    return log == mlog and [e.payload for e in c.queue] == list(model) and [e.payload for e in c.defer_queue] == list(dq)
