# scratch v2: bit-vector state, linear lasso encoding (saved state + 'in loop' flag), same step machines
import z3, time, sys, os
K=int(sys.argv[1]); CAP=int(sys.argv[2]); NPOST=int(sys.argv[3]); FIX=os.environ.get('FIX')
W=4
def BV(v): return z3.BitVecVal(v,W)
names=['q','n','pcc']+sum([['pc%d'%i,'a%d'%i] for i in range(NPOST)],[])
def mk(t): return {k:z3.BitVec('%s_%s'%(k,t),W) for k in names}
def upd(s,s2,**kw): return z3.And([s2[k]==(kw[k] if k in kw else s[k]) for k in names])
def poster(s,s2,i):
    P='pc%d'%i; A='a%d'%i; pc,a,q,n=s[P],s[A],s['q'],s['n']
    T=z3.BoolVal(True); u=lambda **kw: upd(s,s2,**kw)
    inc=lambda x: z3.If(z3.ULT(x,BV(CAP)),x+1,x)
    cond8 = z3.ULT(a,n) if FIX else a!=n
    cases=[(pc==0,T,z3.If(z3.ULT(q,BV(CAP)),u(**{P:BV(1)}),u(**{P:BV(3)}))),
      (pc==1,z3.ULT(q,BV(CAP)),u(q=q+1,**{P:BV(2)})),
      (pc==2,T,u(n=inc(n),**{P:BV(5)})),(pc==3,T,u(**{P:BV(4)})),(pc==4,T,u(n=inc(n),**{P:BV(5)})),
      (pc==5,T,u(**{P:BV(6),A:q})),(pc==6,T,z3.If(z3.ULT(a,n),u(**{P:BV(7)}),u(**{P:BV(10)}))),
      (pc==7,T,u(**{P:BV(8),A:q})),(pc==8,T,z3.If(cond8,u(**{P:BV(9)}),u(**{P:BV(10)}))),
      (pc==9,z3.ULT(q,BV(CAP)),u(q=q+1,**{P:BV(7)}))]
    return z3.Or([z3.And(g,e) for g,e,_ in cases]), z3.Or([z3.And(g,e,x) for g,e,x in cases])
def cons(s,s2):
    pc,q,n=s['pcc'],s['q'],s['n']; T=z3.BoolVal(True); u=lambda **kw: upd(s,s2,**kw)
    cases=[(pc==0,T,u(pcc=BV(1))),(pc==1,q!=0,u(q=q-1,pcc=BV(2))),
      (pc==2,T,z3.If(n!=0,u(pcc=BV(3)),u(pcc=BV(4)))),(pc==3,T,u(n=n-1,pcc=BV(4))),(pc==4,T,u(pcc=BV(0)))]
    return z3.Or([z3.And(g,e) for g,e,_ in cases]), z3.Or([z3.And(g,e,x) for g,e,x in cases])
S=[mk(t) for t in range(K+1)]
NT=NPOST+1
sched=[z3.BitVec('sc_%d'%t,2) for t in range(K)]
sol=z3.SolverFor('QF_BV')
for k in names: sol.add(S[0][k]==BV(1 if k in('q','n') else 0))
saved=mk('sv'); inl=[z3.Bool('inl_%d'%t) for t in range(K+1)]   # in-loop flag, monotone; saved = state at loop entry
ran=[[z3.Bool('ran_%d_%d'%(th,t)) for t in range(K+1)] for th in range(NT)]
dis=[[z3.Bool('dis_%d_%d'%(th,t)) for t in range(K+1)] for th in range(NT)]
sol.add(z3.Not(inl[0]))
for th in range(NT): sol.add(z3.Not(ran[th][0])); sol.add(dis[th][0])
for t in range(K):
    opts=[]; ens=[]
    for i in range(NPOST):
        en,tr=poster(S[t],S[t+1],i); opts.append(z3.And(sched[t]==i,tr)); ens.append(en)
    en,tr=cons(S[t],S[t+1]); opts.append(z3.And(sched[t]==NPOST,tr)); ens.append(en)
    sol.add(z3.Or(opts))
    sol.add(z3.Implies(inl[t],inl[t+1]))
    enter=z3.And(z3.Not(inl[t]),inl[t+1])
    sol.add(z3.Implies(enter, z3.And([saved[k]==S[t][k] for k in names])))   # loop starts at state t
    for th in range(NT):
        # ran: scheduled at some step while in loop (step t counts if inl[t+1])
        sol.add(ran[th][t+1]==z3.Or(ran[th][t], z3.And(inl[t+1], sched[t]==th)))
        sol.add(dis[th][t+1]==z3.And(dis[th][t], z3.Or(z3.Not(inl[t+1]), z3.Not(ens[th]))))
closes=[]
for t in range(1,K+1):
    closes.append(z3.And(inl[t], z3.And([saved[k]==S[t][k] for k in names]),
        z3.And([z3.Or(ran[th][t],dis[th][t]) for th in range(NT)]),
        z3.Or([ran[th][t] for th in range(NT)]),
        z3.Or([S[t]['pc%d'%p]!=BV(10) for p in range(NPOST)])))
sol.add(z3.Or(closes))
t0=time.time(); r=sol.check(); print('K',K,'CAP',CAP,'posters',NPOST,'FIX',bool(FIX),'->',r,'%.1fs'%(time.time()-t0))
