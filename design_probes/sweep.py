import time, sys, hsm_y
import miros; print(miros.__file__)
t0=time.time(); n=0; bad=[]
N=int(sys.argv[1])
for l in range(5):
  for a in range(1,5):
    for b in range(6):
      for j1 in range(6):
        for j2 in range(4):
          if l+a+b+j1+j2<=N:
            for k in range(l+a):
              for ts in range(l+a+b):
                n+=1
                try: ok=hsm_y.check_y(l,a,b,k,ts,j1,j2)
                except Exception as ex: ok=False
                if not ok: bad.append((l,a,b,k,ts,j1,j2))
print(n,'cases',len(bad),'bad','%.1fs'%(time.time()-t0)); print(bad[:8])
