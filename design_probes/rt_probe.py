import miros.event as ev
from miros.event import Event, SignalSource
import json, copy
from typing import List, Dict, Union, Optional

class _Codec:
    # stub: documented contract loads(dumps(x)) == x for JSON-representable x
    class Tok:
        def __init__(self, v): self.v = v
    @staticmethod
    def dumps(o): return _Codec.Tok(copy.deepcopy(o))
    @staticmethod
    def loads(t): return copy.deepcopy(t.v)

def fresh():
    ev.signals = SignalSource()

def rt_real(name: str, payload: Union[None, bool, int, str, List[int]]) -> bool:
    '''
    pre: len(name) <= 3
    post: _
    '''
    fresh()
    e = Event(signal=name, payload=payload)
    f = Event.loads(Event.dumps(e))
    return f.signal_name == name and f.payload == payload and f.signal == ev.signals[name] and type(f.payload) == type(payload)

def rt_stub(name: str, payload: Union[None, bool, int, str, List[int], Dict[str, int]]) -> bool:
    '''
    pre: len(name) <= 3
    post: _
    '''
    fresh()
    old = ev.json
    ev.json = _Codec
    try:
        e = Event(signal=name, payload=payload)
        f = Event.loads(Event.dumps(e))
        return f.signal_name == name and f.payload == payload and f.signal == ev.signals[name]
    finally:
        ev.json = old
