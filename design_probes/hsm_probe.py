from typing import List, Tuple
from miros.event import signals, Event, return_status
from miros.hsm import HsmEventProcessor

N = 5
SIG = Event(signal='PX').signal

def build(parent, react, init, log):
    hs = [None]*len(parent)
    def mk(i):
        def h(chart, e):
            s = e.signal
            if s == signals.ENTRY_SIGNAL:
                log.append(('en', i)); return return_status.HANDLED
            if s == signals.EXIT_SIGNAL:
                log.append(('ex', i)); return return_status.HANDLED
            if s == signals.INIT_SIGNAL:
                log.append(('in', i))
                if init[i] >= 0:
                    return chart.trans(hs[init[i]])
                return return_status.HANDLED
            if s == SIG:
                log.append(('of', i))
                r = react[i]
                if r >= 0:
                    return chart.trans(hs[r])
                if r == -1:
                    return return_status.HANDLED
                if r == -2:
                    return return_status.UNHANDLED
            chart.temp.fun = chart.top if parent[i] < 0 else hs[parent[i]]
            return return_status.SUPER
        h.__name__ = 's%d' % i
        return h
    for i in range(len(parent)):
        hs[i] = mk(i)
    return hs

def anc(parent, i):
    out = []
    while i >= 0:
        out.append(i); i = parent[i]
    return out  # i, parent, ..., root

def oracle(parent, react, init, cur):
    # returns expected log after dispatching SIG from cur
    log = []
    path = anc(parent, cur)
    S = None
    for s in path:
        log.append(('of', s))
        if react[s] == -1:
            return log, cur
        if react[s] >= 0:
            S = s; break
    if S is None:
        return log, cur
    T = react[S]
    at, as_ = anc(parent, T), anc(parent, S)
    if S == T:
        L = parent[S]
    elif S in at:
        L = S
    elif T in as_:
        L = T
    else:
        L = -1
        for x in as_:
            if x in at:
                L = x; break
    # exits from cur up to excluding L
    for s in path:
        if s == L: break
        log.append(('ex', s))
    ent = []
    for x in at:
        if x == L: break
        ent.append(x)
    for x in reversed(ent):
        log.append(('en', x))
    t = T
    while True:
        log.append(('in', t))
        if init[t] < 0: break
        tgt = init[t]
        chain = []
        x = tgt
        while x != t:
            chain.append(x); x = parent[x]
        for x in reversed(chain):
            log.append(('en', x))
        t = tgt
    return log, t

def wellformed(parent, react, init, cur):
    n = len(parent)
    if not (len(react) == n and len(init) == n and 0 <= cur < n): return False
    for i in range(n):
        if not (-1 <= parent[i] < i): return False
        if not (-3 <= react[i] < n): return False
        if not (-1 <= init[i] < n): return False
        if init[i] >= 0:
            if init[i] <= i: return False
            if i not in anc(parent, init[i])[1:]: return False
    return True

def check_dispatch(parent: List[int], react: List[int], init: List[int], cur: int) -> bool:
    '''
    pre: len(parent) == 5
    pre: wellformed(parent, react, init, cur)
    post: _
    '''
    log = []
    hs = build(parent, react, init, log)
    c = HsmEventProcessor()
    c.state.fun = hs[cur]; c.temp.fun = hs[cur]
    c.dispatch(Event(signal=SIG))
    exp, end = oracle(parent, react, init, cur)
    return log == exp and c.state.fun is hs[end]
