import sys, traceback
from collections import deque
from miros.event import signals, Event, return_status
from miros.hsm import HsmEventProcessor, InstrumentedHsmEventProcessor, HsmWithQueues, spy_on, HsmTopologyException
from miros.activeobject import LockingDeque, ActiveFabricSource, FabricEvent
from miros.thread_safe_attributes import MetaThreadSafeAttributes

def t(name, f):
    try:
        print(name, '->', f())
    except BaseException as ex:
        print(name, 'EXC', type(ex).__name__, ex)

# C18 plain + spied
@spy_on
def s1(chart, e):
    if e.signal == signals.ENTRY_SIGNAL: return return_status.HANDLED
    chart.temp.fun = chart.top; return return_status.SUPER
t('C18 plain host spied', lambda: HsmEventProcessor().start_at(s1))

# C16 clear on empty; appendleft full
t('C16 clear empty', lambda: LockingDeque().clear())
def lifo_full():
    ld = LockingDeque()
    for i in range(500): ld.append(i)
    ld.appendleft('new'); return ld.deque[0], len(ld)
t('C16 lifo full', lifo_full)

# C29
class A(metaclass=MetaThreadSafeAttributes):
    _attributes=['x']
def c29():
    a=A(); b=A(); a.x=5
    return b.x
t('C29', c29)
# C28
import threading
def c28():
    a=A(); a.x=1
    y = a.x <= 5
    got=[]
    th=threading.Thread(target=lambda: got.append(A.__dict__['x']._lock.acquire(timeout=0.2))); th.start(); th.join()
    return got
t('C28 compare', c28)

# C06
def c06():
    f=ActiveFabricSource()
    q1=deque(maxlen=5); q2=deque(maxlen=5)
    e=Event(signal='C06A')
    f.subscribe(q1,e); f.subscribe(q2,e); f.subscribe(q2,e)
    return [id(q)==id(q1) for q in f.fifo_subscriptions['C06A']]
t('C06', c06)
# C08
import queue
def c08():
    pq=queue.PriorityQueue()
    for i in range(4): pq.put(FabricEvent(i,1000))
    return [pq.get().event for _ in range(4)]
t('C08', c08)
# C13
def c13():
    f=ActiveFabricSource(); f.start(); f.start(); r=(f.fifo_thread, f.is_alive()); 
    return r
t('C13', c13)
