import sys, time
from crosshair.core_and_libs import analyze_function, run_checkables, MessageType
from crosshair.options import AnalysisOptionSet
from crosshair.options import AnalysisKind
from crosshair.core import realize
import hsm_y, hsm_probe as P
from miros.hsm import HsmEventProcessor
from miros.event import Event

COUNT = [0]
TOTAL = int(sys.argv[1]); LSEL = int(sys.argv[2])

def check_y(l: int, a: int, b: int, k: int, tsel: int, j1: int, j2: int) -> bool:
    '''
    pre: l == LSEL and 1 <= a <= 3 and 0 <= b <= 4 and 0 <= j1 <= 4 and 0 <= j2 <= 2
    pre: l + a + b + j1 + j2 == TOTAL
    pre: 0 <= k < l + a
    pre: 0 <= tsel < l + a + b
    post: _
    '''
    def conc(x, lo, hi):
        for v in range(lo, hi + 1):
            if x == v:
                return v
        raise AssertionError('out of range')
    l = conc(l, 0, 3); a = conc(a, 1, 3); b = conc(b, 0, 4); j1 = conc(j1, 0, 4); j2 = conc(j2, 0, 2)
    k = conc(k, 0, l + a - 1); tsel = conc(tsel, 0, l + a + b - 1)
    COUNT[0] += 1
    return hsm_y.check_y.__wrapped__(l, a, b, k, tsel, j1, j2) if hasattr(hsm_y.check_y, '__wrapped__') else hsm_y.check_y(l, a, b, k, tsel, j1, j2)

t0 = time.time()
opts = AnalysisOptionSet(per_condition_timeout=600, per_path_timeout=30, analysis_kind=[AnalysisKind.PEP316], report_all=True)
msgs = list(run_checkables(analyze_function(check_y, opts)))
for m in msgs:
    print(m.state, m.message[:200])
print('paths', COUNT[0], 'wall %.1f' % (time.time() - t0))
