# scratch: hand-encoded step machine for LockingDeque.append (poster) x run_event (consumer)
# shared: q (token count), n (deque len), CAP ; per-thread pc. Schedule sched[t] symbolic.
import z3, time, sys
CAP = int(sys.argv[2]) if len(sys.argv)>2 else 3
K = int(sys.argv[1]) if len(sys.argv)>1 else 20
NPOST = int(sys.argv[3]) if len(sys.argv)>3 else 1
# poster pcs: 0 full? ; 1 put ; 2 append ; 3 rotate ; 4 append(full) ; 5 read qsize (if) ; 6 read len (if) ; 7 read qsize (while) ; 8 read len(while) ; 9 put(repair) ; 10 done
# consumer pcs: 0 is_set ; 1 get(token) blocks if q==0 ; 2 len>=1 ? ; 3 popleft(dispatch) ; 4 task_done -> 0
def step_poster(s, s2, i):
    pc, a, b = s['pc%d'%i], s['a%d'%i], s['b%d'%i]
    q, n = s['q'], s['n']
    def upd(**kw):
        c=[]
        for k in s:
            if k in kw: c.append(s2[k]==kw[k])
            else: c.append(s2[k]==s[k])
        return z3.And(c)
    P='pc%d'%i; A='a%d'%i; B='b%d'%i
    cases=[
      (pc==0, z3.BoolVal(True), z3.If(q<CAP, upd(**{P:1}), upd(**{P:3}))),
      (pc==1, q<CAP, upd(q=q+1, **{P:2})),           # put blocks when full
      (pc==2, z3.BoolVal(True), upd(n=z3.If(n<CAP,n+1,n), **{P:5})),
      (pc==3, z3.BoolVal(True), upd(**{P:4})),
      (pc==4, z3.BoolVal(True), upd(n=z3.If(n<CAP,n+1,n), **{P:5})),
      (pc==5, z3.BoolVal(True), upd(**{P:6, A:q})),
      (pc==6, z3.BoolVal(True), z3.If(a<n, upd(**{P:7}), upd(**{P:10}))),
      (pc==7, z3.BoolVal(True), upd(**{P:8, A:q})),
      (pc==8, z3.BoolVal(True), z3.If((a<n) if __import__("os").environ.get("FIX") else (a!=n), upd(**{P:9}), upd(**{P:10}))),
      (pc==9, q<CAP, upd(q=q+1, **{P:7})),
    ]
    en = z3.Or([z3.And(g,e) for g,e,_ in cases])
    tr = z3.Or([z3.And(g,e,u) for g,e,u in cases])
    return en, tr
def step_cons(s, s2):
    pc, q, n = s['pcc'], s['q'], s['n']
    def upd(**kw):
        return z3.And([s2[k]==(kw[k] if k in kw else s[k]) for k in s])
    cases=[
      (pc==0, z3.BoolVal(True), upd(pcc=1)),
      (pc==1, q>0, upd(q=q-1, pcc=2)),
      (pc==2, z3.BoolVal(True), z3.If(n>=1, upd(pcc=3), upd(pcc=4))),
      (pc==3, z3.BoolVal(True), upd(n=n-1, pcc=4)),
      (pc==4, z3.BoolVal(True), upd(pcc=0)),
    ]
    en = z3.Or([z3.And(g,e) for g,e,_ in cases])
    tr = z3.Or([z3.And(g,e,u) for g,e,u in cases])
    return en, tr
names=['q','n','pcc']+sum([['pc%d'%i,'a%d'%i,'b%d'%i] for i in range(NPOST)],[])
S=[{k:z3.Int('%s_%d'%(k,t)) for k in names} for t in range(K+1)]
sched=[z3.Int('sched_%d'%t) for t in range(K)]
sol=z3.Solver()
for k in names: sol.add(S[0][k]==(1 if k in ("q","n") else 0))
ens=[]
for t in range(K):
    opts=[]; en_t=[]
    for i in range(NPOST):
        en,tr=step_poster(S[t],S[t+1],i); opts.append(z3.And(sched[t]==i,tr)); en_t.append(en)
    en,tr=step_cons(S[t],S[t+1]); opts.append(z3.And(sched[t]==NPOST,tr)); en_t.append(en)
    sol.add(z3.Or(opts)); ens.append(en_t)
# lasso: exists i<j: S[i]==S[j], every thread that is enabled somewhere in [i,j) steps in [i,j) (weak fairness approx: each thread either scheduled in loop or disabled throughout loop), and some poster not done
lassos=[]
for i in range(K):
    for j in range(i+1,K+1):
        same=z3.And([S[i][k]==S[j][k] for k in names])
        fair=[]
        for th in range(NPOST+1):
            ran=z3.Or([sched[t]==th for t in range(i,j)])
            disabled=z3.And([z3.Not(ens[t][th]) for t in range(i,j)])
            fair.append(z3.Or(ran,disabled))
        notdone=z3.Or([S[i]['pc%d'%p]!=10 for p in range(NPOST)])
        lassos.append(z3.And(same,z3.And(fair),notdone))
sol.add(z3.Or(lassos))
t0=time.time(); r=sol.check(); dt=time.time()-t0
print('K',K,'CAP',CAP,'posters',NPOST,'->',r,'%.1fs'%dt)
if r==z3.sat:
    m=sol.model()
    for t in range(K):
        print(t,'th',m[sched[t]],{k:m.eval(S[t][k]).as_long() for k in names})
