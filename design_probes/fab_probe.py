from typing import List
from collections import deque
import miros.event as ev
import miros.activeobject as ao
from miros.event import Event, SignalSource

class CountEvent:
    def __init__(self, n): self.n = n
    def is_set(self):
        self.n -= 1
        return self.n >= 0

def prio_order(p0: int, p1: int, p2: int, p3: int, lag: int) -> bool:
    '''
    pre: 0 <= p0 <= 2 and 0 <= p1 <= 2 and 0 <= p2 <= 2 and 0 <= p3 <= 2 and 0 <= lag <= 3
    post: _
    '''
    fab = ao.ActiveFabricSource()
    q = deque(maxlen=10)
    e = [Event(signal='PA', payload=i) for i in range(4)]
    fab.subscribe(q, e[0])
    ps = [p0, p1, p2, p3]
    ref = []; out_ref = []
    # publish first 'lag+1' events, deliver one, publish rest, deliver all
    for i in range(4):
        fab.publish(e[i], priority=ps[i]); ref.append((ps[i], i))
        if i == lag:
            fab.thread_runner_fifo(CountEvent(1), fab.fifo_fabric_queue, fab.fifo_subscriptions)
            ref.sort(); out_ref.append(ref.pop(0)[1])
    fab.thread_runner_fifo(CountEvent(len(ref)), fab.fifo_fabric_queue, fab.fifo_subscriptions)
    ref.sort(); out_ref += [i for _, i in ref]
    return [x.payload for x in q] == out_ref
