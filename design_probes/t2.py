import time, traceback
from miros.event import signals, Event, return_status
from miros.activeobject import ActiveObject, ActiveFabric
from miros.hsm import spy_on
log=[]
def mk(tag):
    def s(chart, e):
        if e.signal in (signals.ENTRY_SIGNAL, signals.INIT_SIGNAL, signals.EXIT_SIGNAL): return return_status.HANDLED
        if e.signal == signals.ZZ: log.append((tag,'ZZ')); return return_status.HANDLED
        chart.temp.fun = chart.top; return return_status.SUPER
    s.__name__='s_'+tag
    return s
def t(name,f):
    try: print(name,'->',f())
    except BaseException as ex: print(name,'EXC',type(ex).__name__,ex)
def unnamed_unspied():
    ao=ActiveObject(); ao.start_at(mk('u')); return 'ok'
t('unspied unnamed AO start', unnamed_unspied)
def named_unspied():
    ao=ActiveObject(name='n1'); ao.subscribe(Event(signal=signals.ZZ)); ao.start_at(mk('n1')); time.sleep(0.1)
    pub=ActiveObject(name='p1'); pub.start_at(spy_on(mk('p1'))); time.sleep(0.1)
    pub.publish(Event(signal=signals.ZZ)); time.sleep(0.2)
    return list(log), ao.instrumented, dict(ActiveFabric().fifo_subscriptions).keys()
t('unspied subscriber', named_unspied)
def second_sub():
    log.clear()
    a=ActiveObject(name='a'); a.start_at(spy_on(mk('a'))); b=ActiveObject(name='b'); b.start_at(spy_on(mk('b'))); time.sleep(0.1)
    a.subscribe(Event(signal=signals.ZZ)); time.sleep(0.05); b.subscribe(Event(signal=signals.ZZ)); time.sleep(0.05)
    a.publish(Event(signal=signals.ZZ)); time.sleep(0.2)
    return list(log)
t('runtime subscribe with prior subscriber', second_sub)
