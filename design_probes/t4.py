import time, threading
from miros.event import signals, Event, return_status
from miros.activeobject import ActiveObject, ActiveObjectOutOfPostedEventResources
from miros.hsm import spy_on, HsmWithQueues
from miros.thread_safe_attributes import MetaThreadSafeAttributes
def t(name,f):
    try: print(name,'->',f())
    except BaseException as ex: print(name,'EXC',type(ex).__name__,str(ex)[:80])
log=[]
@spy_on
def s(chart,e):
    if e.signal in (signals.ENTRY_SIGNAL,signals.EXIT_SIGNAL,signals.INIT_SIGNAL): return return_status.HANDLED
    if e.signal in (signals.TK, signals.TJ): log.append(e.signal_name); return return_status.HANDLED
    chart.temp.fun=chart.top; return return_status.SUPER
def c11a():
    ao=ActiveObject(name='c11'); ao.start_at(s)
    tid=ao.post_fifo(Event(signal=signals.TK), period=0.05, times=0, deferred=True)
    copy=''.join(list(tid)); assert copy==tid and copy is not tid
    ao.cancel_event(copy); time.sleep(0.2); n1=len(log)
    ao.cancel_events(Event.loads(Event.dumps(Event(signal=signals.TK)))); time.sleep(0.2); n2=len(log)
    ao.cancel_event(tid); time.sleep(0.1); n3=len(log); time.sleep(0.2); n4=len(log); ao.stop()
    return dict(after_equal_id=n1, after_equal_name=n2, stopped_after_identical=(n3==n4))
t('C11a', c11a)
def c31():
    log.clear()
    class AO(ActiveObject): QUEUE_SIZE=2
    ao=AO(name='c31'); ao.start_at(s)
    ao.post_fifo(Event(signal=signals.TJ), period=5, times=1); ao.post_fifo(Event(signal=signals.TJ), period=5, times=1)
    try:
        ao.post_fifo(Event(signal=signals.TK), period=5, times=1, deferred=False)
        r='no exception'
    except ActiveObjectOutOfPostedEventResources: r='raised'
    time.sleep(0.2); out=(r, list(log)); ao.stop(); return out
import io, contextlib
def c31q():
    with contextlib.redirect_stdout(io.StringIO()): return c31()
t('C31', c31q)
class A(metaclass=MetaThreadSafeAttributes):
    _attributes=['x']
def c27():
    a=A(); a.x=1; errs=[]
    def slow(): time.sleep(0.2); return 1
    def t1():
        try:
            a.x += slow()
        except BaseException as ex: errs.append(('t1',type(ex).__name__))
    def t2():
        time.sleep(0.05)
        try:
            a.x = 5
        except BaseException as ex: errs.append(('t2',type(ex).__name__,str(ex)))
    th=[threading.Thread(target=t1),threading.Thread(target=t2)]
    [x.start() for x in th]; [x.join(2) for x in th]
    return errs, A.__dict__['x']._value
t('C27', c27)
