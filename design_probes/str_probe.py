from miros.hsm import stripped
from miros.thread_safe_attributes import ThreadSafeAttribute
from miros.event import Event
import json

def strip1(ts: str, rest: str) -> bool:
    '''
    pre: 1 <= len(ts) <= 3 and all(c in '0123456789-:. ' for c in ts)
    pre: 1 <= len(rest) <= 4 and chr(10) not in rest and chr(13) not in rest
    post: _
    '''
    with stripped('[' + ts + '] ' + rest) as s:
        return s == rest

def classify(line: str) -> bool:
    '''
    pre: len(line) <= 4
    post: _ == False
    '''
    return ThreadSafeAttribute().is_not_atomic('x = a.b ' + line)

def rt(name: str, payload: int) -> bool:
    '''
    pre: 1 <= len(name) <= 3
    post: _
    '''
    e = Event(signal=name, payload=payload)
    f = Event.loads(Event.dumps(e))
    return f.signal_name == name and f.payload == payload
