from typing import List
from collections import deque
import miros.event as ev
from miros.event import Event, signals, return_status
from miros.hsm import HsmWithQueues, spy_on

def mkchart(instr, log, script):
    # one-state chart; handler logs dispatches and performs scripted self-posts
    def s0(chart, e):
        if e.signal in (signals.ENTRY_SIGNAL, signals.INIT_SIGNAL, signals.EXIT_SIGNAL):
            return return_status.HANDLED
        if e.signal >= 11 and e.signal_name.startswith('Q'):
            log.append(e.payload)
            for kind, pl in script.get(e.payload, ()):
                if kind == 0: chart.post_fifo(Event(signal='Q', payload=pl))
                else: chart.post_lifo(Event(signal='Q', payload=pl))
            return return_status.HANDLED
        chart.temp.fun = chart.top
        return return_status.SUPER
    return spy_on(s0) if instr else s0

def hist(ops: List[int], instr: bool) -> bool:
    '''
    pre: len(ops) <= 5 and all(0 <= o <= 5 for o in ops)
    post: _
    '''
    log = []; model = deque(); mlog = []; dq = deque()
    c = HsmWithQueues()
    c.start_at(mkchart(instr, log, {}))
    n = 0
    for o in ops:
        n += 1
        if o == 0: c.post_fifo(Event(signal='Q', payload=n)); model.append(n)
        elif o == 1: c.post_lifo(Event(signal='Q', payload=n)); model.appendleft(n)
        elif o == 2:
            r = c.next_rtc()
            if model: mlog.append(model.popleft())
        elif o == 3:
            c.complete_circuit()
            while model: mlog.append(model.popleft())
            if len(c.queue) != 0: return False
        elif o == 4: c.defer(Event(signal='Q', payload=n)); dq.append(n)
        elif o == 5:
            r = c.recall()
            if dq:
                x = dq.popleft(); model.append(x)
                if r is None or r.payload != x: return False
            elif r is not None: return False
    return log == mlog and [e.payload for e in c.queue] == list(model)
