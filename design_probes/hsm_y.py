from typing import List, Tuple
from miros.event import signals, Event, return_status
from miros.hsm import HsmEventProcessor
import hsm_probe as P

def make_y(l, a, b, k, mode, j1, j2):
    # trunk: l states under top (0..l-1); source branch: a states; target branch: b states; tail: below T
    parent=[]; 
    for i in range(l): parent.append(i-1)
    L = l-1
    src=[]; p=L
    for i in range(a):
        parent.append(p); p=len(parent)-1; src.append(p)
    tgt=[]; p=L
    for i in range(b):
        parent.append(p); p=len(parent)-1; tgt.append(p)
    # mode: 0 = T is end of tgt branch (needs b>=1) ; 1 = T is on source path/trunk at index k2 ; 
    return parent, src, tgt

def check_y(l: int, a: int, b: int, k: int, tsel: int, j1: int, j2: int) -> bool:
    '''
    pre: 0 <= l <= 3 and 1 <= a <= 3 and 0 <= b <= 4 and 0 <= j1 <= 4 and 0 <= j2 <= 2
    pre: l + a + b + j1 + j2 <= 9
    pre: 0 <= k < l + a
    pre: 0 <= tsel < l + a + b
    post: _
    '''
    parent, src, tgt = make_y(l, a, b, k, 0, j1, j2)
    n0 = len(parent)
    cur = src[-1]
    path = P.anc(parent, cur)
    S = path[k]
    T = tsel
    react = [-3]*n0
    react[S] = T
    # tail below T
    init = [-1]*n0
    p = T
    for i in range(j1):
        parent.append(p); p = len(parent)-1; react.append(-3); init.append(-1)
    if j1: init[T] = p
    q = p
    for i in range(j2):
        parent.append(q); q = len(parent)-1; react.append(-3); init.append(-1)
    if j2: init[p] = q
    log=[]
    hs = P.build(parent, react, init, log)
    c = HsmEventProcessor()
    c.state.fun = hs[cur]; c.temp.fun = hs[cur]
    c.dispatch(Event(signal=P.SIG))
    exp, end = P.oracle(parent, react, init, cur)
    return log == exp and c.state.fun is hs[end]
