import ast, re, z3, time, random
import re._parser as sp, re._constants as sc
src = open('/repo/miros/thread_safe_attributes.py').read()
pats = [n.args[0].value for n in ast.walk(ast.parse(src)) if isinstance(n, ast.Call) and getattr(n.func,'attr','')=='search' and isinstance(n.args[0], ast.Constant)]
print('patterns from source:', pats)
def ch(c): return z3.Re(z3.StringVal(chr(c)))
def conv(p):
    parts=[]
    for op, av in p:
        if op == sc.LITERAL: parts.append(ch(av))
        elif op == sc.IN:
            alts=[]
            for o, v in av:
                if o == sc.LITERAL: alts.append(ch(v))
                elif o == sc.RANGE: alts.append(z3.Range(chr(v[0]), chr(v[1])))
                else: raise NotImplementedError(o)
            parts.append(z3.Union(*alts) if len(alts)>1 else alts[0])
        elif op == sc.SUBPATTERN: parts.append(conv(av[3]))
        elif op == sc.BRANCH: parts.append(z3.Union(*[conv(x) for x in av[1]]))
        elif op == sc.MAX_REPEAT:
            lo, hi, sub = av; r = conv(sub)
            if hi == sc.MAXREPEAT: parts.append(z3.Concat(*([r]*lo + [z3.Star(r)])) if lo else z3.Star(r))
            else: parts.append(z3.Loop(r, lo, hi))
        else: raise NotImplementedError(op)
    return z3.Concat(*parts) if len(parts)>1 else parts[0]
ANY = z3.Star(z3.AllChar(z3.ReSort(z3.StringSort())))
def search_re(pat): return z3.Concat(ANY, conv(sp.parse(pat)), ANY)
R = search_re(pats[0])
# differential validation
rnd = random.Random(1); alpha = "ab =+-*/<>%@^&|.,!:x1 "
bad = 0
for i in range(300):
    s = ''.join(rnd.choice(alpha) for _ in range(rnd.randint(0,8)))
    sol = z3.Solver(); sol.add(z3.InRe(z3.StringVal(s), R))
    if (sol.check() == z3.sat) != (re.search(pats[0], s) is not None): bad += 1
print('differential disagreements:', bad)
# language of read-only statements:  ident ws* '=' ws* 'o.x' ws* CMP ws* ident   and  'if o.x' ws* CMP ws* ident ':'
ident = z3.Plus(z3.Union(z3.Range('a','z'), z3.Range('A','Z'), z3.Re('_')))
ws = z3.Star(z3.Re(' '))
def alt(xs): return z3.Union(*[z3.Re(x) for x in xs])
CMP = alt(['==','!=','<','>','<=','>=',' is ',' in '])
BIN = alt(['+','-','*','/','//','%','**','@','&','|','^','<<','>>'])
reads = z3.Union(
  z3.Concat(ident, ws, z3.Re('='), ws, z3.Re('o.x'), ws, z3.Union(CMP,BIN), ws, ident),
  z3.Concat(z3.Re('if o.x'), ws, CMP, ws, ident, z3.Re(':')),
  z3.Concat(ident, ws, z3.Re('='), ws, z3.Re('o.x')))
s = z3.String('s'); sol = z3.Solver(); sol.add(z3.InRe(s, reads), z3.InRe(s, R))
t0=time.time(); r = sol.check(); print('read-only stmt classified non-atomic?', r, '%.2fs'%(time.time()-t0), sol.model()[s] if r==z3.sat else '')
# with <= >= removed from CMP -> expect unsat
CMP2 = alt(['==','!=','<','>',' is ',' in '])
reads2 = z3.Union(z3.Concat(ident, ws, z3.Re('='), ws, z3.Re('o.x'), ws, z3.Union(CMP2,BIN), ws, ident), z3.Concat(z3.Re('if o.x'), ws, CMP2, ws, ident, z3.Re(':')))
sol = z3.Solver(); sol.add(z3.InRe(s, reads2), z3.InRe(s, R)); t0=time.time(); print('without <=,>=:', sol.check(), '%.2fs'%(time.time()-t0))
