import datetime
from miros.event import signals, Event, return_status
from miros.hsm import HsmEventProcessor, HsmWithQueues, HsmTopologyException, spy_on, state_method_template
import miros.hsm as H
class Limit(BaseException): pass
def t(name,f):
    try: print(name,'->',f())
    except BaseException as ex: print(name,'EXC',type(ex).__name__,str(ex)[:80])
calls=[0]
class P(HsmEventProcessor):
    def top(self,*a):
        calls[0]+=1
        if calls[0]>400: raise Limit()
        return super().top(*a)
def mk(name, parent, init=None, trans=None):
    def h(chart,e):
        calls[0]+=1
        if calls[0]>400: raise Limit()
        if e.signal==signals.ENTRY_SIGNAL or e.signal==signals.EXIT_SIGNAL: return return_status.HANDLED
        if e.signal==signals.INIT_SIGNAL:
            if init: return chart.trans(reg[init])
            return return_status.HANDLED
        if e.signal==signals.GO and trans: return chart.trans(reg[trans])
        chart.temp.fun = chart.top if parent is None else reg[parent]; return return_status.SUPER
    h.__name__=name; return h
reg={}
reg['a']=mk('a',None,trans='b'); reg['b']=mk('b',None,init='c'); reg['c']=mk('c',None)   # b's init targets sibling c
def via_start(): calls[0]=0; c=P(); c.start_at(reg['b'])
def via_dispatch(): calls[0]=0; c=P(); c.start_at(reg['a']); c.dispatch(Event(signal=signals.GO))
t('C24 sibling init via start_at', via_start); t('C24 sibling init via dispatch', via_dispatch)
reg['s']=mk('s',None,init='s')
def self_init(): calls[0]=0; c=P(); c.start_at(reg['s'])
t('C24 init to self via start_at', self_init)
# C17 to_code with state lacking callbacks
def c17():
    c=HsmWithQueues(); s1=state_method_template('s1'); s2=state_method_template('s2')
    def cb(chart,e): return return_status.HANDLED
    c.register_signal_callback(s1, signals.A, cb); c.register_parent(s1, c.top); c.register_parent(s2, s1)
    return c.to_code(s2)
t('C17 to_code no callbacks', c17)
# C21 equal timestamps
class FakeNow(datetime.datetime):
    @classmethod
    def now(cls): return datetime.datetime(2020,1,1)
def c21():
    H.stdlib_datetime = FakeNow
    lines=[]
    @spy_on
    def p(chart,e):
        if e.signal in (signals.ENTRY_SIGNAL,signals.EXIT_SIGNAL,signals.INIT_SIGNAL): return return_status.HANDLED
        if e.signal==signals.T1: return chart.trans(q)
        chart.temp.fun=chart.top; return return_status.SUPER
    @spy_on
    def q(chart,e):
        if e.signal in (signals.ENTRY_SIGNAL,signals.EXIT_SIGNAL,signals.INIT_SIGNAL): return return_status.HANDLED
        if e.signal==signals.T1: return chart.trans(p)
        chart.temp.fun=chart.top; return return_status.SUPER
    c=HsmWithQueues(); c.live_trace=True; c.register_live_trace_callback(lines.append)
    c.start_at(p)
    for i in range(3): c.post_fifo(Event(signal=signals.T1)); c.next_rtc()
    return len(c.full.trace), len(lines)
t('C21 records vs live lines', c21)
