import hsm_y, hsm_probe as P
from miros.hsm import HsmEventProcessor
from miros.event import Event
l,a,b,k,tsel,j1,j2 = 0,1,3,0,3,4,1
parent, src, tgt = hsm_y.make_y(l,a,b,k,0,j1,j2)
n0=len(parent); cur=src[-1]; path=P.anc(parent,cur); S=path[k]; T=tsel
react=[-3]*n0; react[S]=T; init=[-1]*n0; p=T
for i in range(j1): parent.append(p); p=len(parent)-1; react.append(-3); init.append(-1)
if j1: init[T]=p
q=p
for i in range(j2): parent.append(q); q=len(parent)-1; react.append(-3); init.append(-1)
if j2: init[p]=q
print('parent',parent,'react',react,'init',init,'cur',cur)
log=[]; hs=P.build(parent,react,init,log); c=HsmEventProcessor(); c.state.fun=hs[cur]; c.temp.fun=hs[cur]
c.dispatch(Event(signal=P.SIG))
exp,end=P.oracle(parent,react,init,cur)
print('got',log); print('exp',exp); print(c.state.fun.__name__, end)
