import ast, inspect, collections, textwrap
import miros.activeobject as A, miros.hsm as H, miros.event as E, miros.singleton as S, miros.thread_safe_attributes as T
def src_ast(fn):
    return ast.parse(textwrap.dedent(inspect.getsource(fn)))
def nested(fn, name):
    for n in ast.walk(src_ast(fn)):
        if isinstance(n, ast.FunctionDef) and n.name == name: return n
kern = {
 'LockingDeque.append': src_ast(A.LockingDeque.append), 'LockingDeque.appendleft': src_ast(A.LockingDeque.appendleft),
 'LockingDeque.clear': src_ast(A.LockingDeque.clear), 'LockingDeque.get': src_ast(A.LockingDeque.get), 'LockingDeque.wait': src_ast(A.LockingDeque.wait),
 'ActiveObject.run_event': src_ast(A.ActiveObject.run_event), 'ActiveObject.stop': src_ast(A.ActiveObject.stop),
 'ActiveObject.cancel_event': src_ast(A.ActiveObject.cancel_event), 'ActiveObject.cancel_events': src_ast(A.ActiveObject.cancel_events),
 'post_event_thread_runner': nested(A.ActiveObject._ActiveObject__post_event, 'post_event_thread_runner'),
 'ActiveObject.post_fifo': src_ast(A.ActiveObject.post_fifo),
 'HsmWithQueues.post_fifo(inner)': src_ast(inspect.unwrap(H.HsmWithQueues.post_fifo)),
 '_append_fifo_to_spy': nested(H.append_fifo_to_spy, '_append_fifo_to_spy'),
 'HsmWithQueues.next_rtc(inner)': src_ast(inspect.unwrap(H.HsmWithQueues.next_rtc)),
 'SingletonDecorator.__call__': src_ast(S.SingletonDecorator.__call__),
 'SignalSource.append': src_ast(E.SignalSource.append), 'SignalSource.__getattr__': src_ast(E.SignalSource.__getattr__),
 'Event.__init__': src_ast(E.Event.__init__),
 'ThreadSafeAttribute.__get__': src_ast(T.ThreadSafeAttribute.__get__), 'ThreadSafeAttribute.__set__': src_ast(T.ThreadSafeAttribute.__set__),
}
skip = (ast.Load, ast.Store, ast.Module, ast.arguments, ast.arg, ast.Expr, ast.FunctionDef, ast.Name, ast.Attribute, ast.Constant, ast.Call, ast.keyword)
allk = collections.Counter()
for k, tree in kern.items():
    c = collections.Counter(type(n).__name__ for n in ast.walk(tree) if not isinstance(n, skip))
    calls = sorted({ast.unparse(n.func) for n in ast.walk(tree) if isinstance(n, ast.Call)})
    allk.update(c)
    print(k); print('   nodes:', dict(c)); print('   calls:', calls)
print('ALL', dict(allk))
# tail of __post_event after thread creation
