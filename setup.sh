#!/bin/sh
# Build the overlay venv used by every check: /venv's packages + crosshair-tool + z3-solver
# from the offline wheelhouse.  Idempotent, safe under concurrent invocation (flock).
set -e
HERE="$(cd "$(dirname "$0")" && pwd)"
VENV="$HERE/.venv"
exec 9>"$HERE/.venv.lock"
flock 9
if [ -x "$VENV/bin/python" ] && "$VENV/bin/python" -c "import crosshair, z3, jsonschema" 2>/dev/null; then
  exit 0
fi
rm -rf "$VENV"
/venv/bin/python -m venv "$VENV"
SP="$("$VENV/bin/python" -c 'import sysconfig; print(sysconfig.get_paths()["purelib"])')"
printf '%s\n' "import site; site.addsitedir('/venv/lib/python3.12/site-packages')" > "$SP/verif_overlay.pth"
PIP_NO_INDEX=1 "$VENV/bin/pip" install -q --no-index --find-links /opt/veriftools/wheels crosshair-tool z3-solver jsonschema >/dev/null
"$VENV/bin/python" -c "import crosshair, z3, jsonschema"
