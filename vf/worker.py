"""Run CrossHair on one harness of one property module under one partition.

usage: python -m vf.worker <out.json> <json job>
job = {"prop": "c01", "harness": "h_step", "part": {...}, "timeout": 300, "twin": false,
       "known": ["sig", ...]}
"""
import importlib
import json
import sys
import time
import traceback


def main():
  out_path, job = sys.argv[1], json.loads(sys.argv[2])
  res = {"job": job, "verdicts": [], "error": None}
  t0 = time.time()
  try:
    from crosshair.core_and_libs import analyze_function, run_checkables
    from crosshair.options import AnalysisOptionSet, AnalysisKind
    from vf import core
    mod = importlib.import_module("vf.props." + job["prop"])
    mod.PART = dict(job.get("part") or {})
    if hasattr(mod, "set_tier") and "tier" in mod.PART:
      mod.set_tier(mod.PART["tier"])
    core.REC.reset()
    core.REC.twin = bool(job.get("twin"))
    core.REC.known_sigs = set(job.get("known") or [])
    core.REC.harness = job["harness"]
    fn = getattr(mod, job["harness"])
    opts = AnalysisOptionSet(
      analysis_kind=[AnalysisKind.PEP316],
      per_condition_timeout=float(job.get("timeout", 300)),
      per_path_timeout=float(job.get("path_timeout", 60)),
      max_iterations=10 ** 9,
      max_uninteresting_iterations=10 ** 9,
      report_all=True,
    )
    checkables = analyze_function(fn, opts)
    msgs = list(run_checkables(checkables))
    for m in msgs:
      res["verdicts"].append({"state": m.state.name, "message": (m.message or "")[:1500]})
    res["rec"] = core.REC.dump()
    res["n_conditions"] = len(msgs)
  except BaseException:
    res["error"] = traceback.format_exc()[-3000:]
  res["wall_s"] = round(time.time() - t0, 3)
  with open(out_path, "w") as f:
    json.dump(res, f)


if __name__ == "__main__":
  main()
