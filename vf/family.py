"""Parameter families: generate a CrossHair harness (a real function with a PEP-316 docstring) from a
specification of small integer parameters, a precondition and a concrete case function.

  fam = Family(globals(), "h_step", params=[("l", 0, 3), ("a", 1, 4), ...], pre=pre, case=case_step,
               split=["l", "a"], tiers={"quick": {...}, "thorough": {...}})

* every parameter not in `split` is a symbolic `int` argument of the generated harness; the harness's
  precondition is `pre(values, limits)` evaluated on the symbolic values (so the solver decides which
  tuples exist), followed by a comparison ladder per parameter, followed by the concrete case run
  (tracing off) and `verdict()`.
* parameters in `split` are fixed per partition (one CrossHair run = one worker process per partition).
* `count(part)` enumerates the same precondition concretely, independently of CrossHair; the driver
  requires harness invocations == count.
"""
import itertools
import linecache

from vf import core

_TEMPLATE = '''
def {name}({sig}) -> bool:
  """
  pre: _FAM_{name}.pre_sym({args})
  post: _
  """
  return _FAM_{name}.run({args})
'''


class Family:
  def __init__(self, g, name, params, pre, case, split=(), tiers=None, timeout=None, nontrivial=None):
    self.g = g
    self.name = name
    self.params = list(params)              # (name, lo, hi) static box
    self.names = [p[0] for p in self.params]
    self.pre = pre                          # pre(v: dict, lim: dict) -> bool
    self.case = case                        # case(*values in declared order) -> Outcome
    self.split = list(split)
    self.sym = [n for n in self.names if n not in self.split]
    self.tiers = tiers or {"quick": {}, "thorough": {}}
    self.timeout = timeout or {"quick": 300, "thorough": 1800}
    self.lim = dict(self.tiers.get("quick", {}))
    g["_FAM_" + name] = self
    src = _TEMPLATE.format(name=name, sig=", ".join("%s: int" % n for n in self.sym), args=", ".join(self.sym))
    fname = "<vf-family-%s-%s>" % (g.get("__name__", "?"), name)
    linecache.cache[fname] = (len(src), None, src.splitlines(True), fname)
    exec(compile(src, fname, "exec"), g)
    g.setdefault("CASES", {})[name] = case
    g.setdefault("FAMILIES", {})[name] = self

  # -- run time (inside the worker) ----------------------------------------------------
  def _part(self):
    return self.g.get("PART") or {}

  def set_tier(self, tier):
    self.lim = dict(self.tiers.get(tier, {}))

  def _values(self, symvals):
    part = self._part()
    v = {}
    it = iter(symvals)
    for n in self.names:
      v[n] = part[n] if n in self.split else next(it)
    return v

  def pre_sym(self, *symvals):
    v = self._values(symvals)
    for n, lo, hi in self.params:
      if n in self.split:
        continue
      if not (lo <= v[n] <= hi):
        return False
    return self.pre(v, self.lim)

  def run(self, *symvals):
    v = self._values(symvals)
    for n, lo, hi in self.params:
      if n not in self.split:
        v[n] = core.ladder(v[n], lo, hi)
    args = [v[n] for n in self.names]
    return core.verdict(tuple(args), core.concrete(self.case, *args))

  # -- driver side -----------------------------------------------------------------------
  def count(self, part):
    box = [range(lo, hi + 1) for (n, lo, hi) in self.params if n not in self.split]
    n = 0
    for combo in itertools.product(*box):
      v = {}
      it = iter(combo)
      for name in self.names:
        v[name] = part[name] if name in self.split else next(it)
      if self.pre(v, self.lim):
        n += 1
    return n

  def jobs(self, tier):
    self.set_tier(tier)
    out = []
    box = [range(lo, hi + 1) for (n, lo, hi) in self.params if n in self.split]
    for combo in itertools.product(*box):
      part = dict(zip(self.split, combo))
      # a partition whose fixed values already violate the precondition has no tuples
      n = self.count(part)
      if n == 0:
        continue
      part["tier"] = tier
      out.append({"harness": self.name, "part": part, "expected": n, "timeout": self.timeout[tier]})
    return out


def set_tier_all(g, tier):
  for f in g.get("FAMILIES", {}).values():
    f.set_tier(tier)


def jobs_all(g, tier):
  out = []
  for f in g.get("FAMILIES", {}).values():
    out.extend(f.jobs(tier))
  return out
