"""Hosts for generated charts: the four processor classes, with or without decoration, plus the stubs a
single-threaded harness needs for ActiveObject (threads recorded, never run by themselves)."""
import queue as _queue

HOSTS = ["HsmEventProcessor", "InstrumentedHsmEventProcessor", "HsmWithQueues(instrumented=True)",
         "HsmWithQueues(instrumented=False)", "ActiveObject(name)", "ActiveObject(unnamed)"]


class SimThread:
  """stand-in for threading.Thread in a single-threaded harness: records target/args, `start` marks it
  alive, `join` runs the body to completion if it never ran (the harness pumps bodies explicitly)."""
  registry = []

  def __init__(self, target=None, args=(), kwargs=None, daemon=None, name=None, group=None):
    self.target, self.args, self.kwargs = target, args, kwargs or {}
    self.daemon = daemon
    self.name = name
    self.started = False
    self.ended = False
    self.ran = False
    SimThread.registry.append(self)

  def start(self):
    if self.started:
      raise RuntimeError("threads can only be started once")
    self.started = True

  def is_alive(self):
    return self.started and not self.ended

  def run_body(self):
    self.ran = True
    try:
      self.target(*self.args, **self.kwargs)
    finally:
      self.ended = True

  def join(self, timeout=None):
    if not self.started:
      raise RuntimeError("cannot join thread before it is started")
    if not self.ended:
      self.run_body()


def install_stubs(capacity=None):
  """fresh singletons; SimThread for miros.activeobject.Thread; optional small capacity"""
  from vf import core
  from vf.queued import NBQueue
  core.fresh_miros()
  import miros.hsm as hsm
  import miros.activeobject as ao
  SimThread.registry = []
  ao.Thread = SimThread
  ao.Queue = NBQueue
  NBQueue.blocked = []
  if capacity is not None:
    hsm.HsmWithQueues.QUEUE_SIZE = capacity
    ao.ActiveObject.QUEUE_SIZE = capacity
  else:
    hsm.HsmWithQueues.QUEUE_SIZE = 500
    ao.ActiveObject.QUEUE_SIZE = 500
  return hsm, ao


def make(host, live_spy=False, live_trace=False, capacity=None):
  """returns (chart object, spy_lines, trace_lines) - callbacks collect live output"""
  hsm, ao = install_stubs(capacity)
  spy_lines, trace_lines = [], []
  if host == 0:
    c = hsm.HsmEventProcessor()
  elif host == 1:
    c = hsm.InstrumentedHsmEventProcessor()
  elif host == 2:
    c = hsm.HsmWithQueues(instrumented=True)
  elif host == 3:
    c = hsm.HsmWithQueues(instrumented=False)
  elif host == 4:
    c = ao.ActiveObject(name="ao")
  else:
    c = ao.ActiveObject()
  if host >= 2:
    c.live_spy = bool(live_spy)
    c.live_trace = bool(live_trace)
    c.register_live_spy_callback(spy_lines.append)
    c.register_live_trace_callback(trace_lines.append)
  return c, spy_lines, trace_lines


def step(c, host, event):
  """one run-to-completion step with `event` on any host"""
  if host <= 1:
    c.dispatch(event)
  else:
    c.post_fifo(event)
    c.next_rtc()


def pump_writer(c):
  """run the real live-output writer thread body over everything queued so far (ActiveObject hosts);
  the non-blocking queue ends the body where the real thread would sleep on an empty queue"""
  from vf.queued import WouldBlock
  for t in SimThread.registry:
    if t.started and not t.ended and getattr(t.target, "__name__", "") == "thread_runner":
      try:
        t.target(*t.args)
      except WouldBlock:
        pass
