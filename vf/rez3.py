"""Python regular expression -> z3 regular expression (sequence theory), for the patterns miros uses.
The pattern is parsed with Python's own re._parser, so the translation follows the engine's reading of the
pattern text; it is validated on every run against re.search on generated strings (validate())."""
import random
import re
import re._constants as sc
import re._parser as sp

import z3

SPACE = " \t\n\r\f\v"


def _ch(c):
  return z3.Re(z3.StringVal(chr(c) if isinstance(c, int) else c))


def _category(cat):
  if cat == sc.CATEGORY_SPACE:
    return z3.Union(*[_ch(c) for c in SPACE])
  if cat == sc.CATEGORY_DIGIT:
    return z3.Range("0", "9")
  if cat == sc.CATEGORY_WORD:
    return z3.Union(z3.Range("a", "z"), z3.Range("A", "Z"), z3.Range("0", "9"), _ch("_"))
  raise NotImplementedError("category %r" % (cat,))


def _conv(p):
  parts = []
  for op, av in p:
    if op == sc.LITERAL:
      parts.append(_ch(av))
    elif op == sc.ANY:
      parts.append(z3.Diff(z3.AllChar(z3.ReSort(z3.StringSort())), _ch("\n")))
    elif op == sc.IN:
      alts = []
      neg = False
      for o, v in av:
        if o == sc.LITERAL:
          alts.append(_ch(v))
        elif o == sc.RANGE:
          alts.append(z3.Range(chr(v[0]), chr(v[1])))
        elif o == sc.CATEGORY:
          alts.append(_category(v))
        elif o == sc.NEGATE:
          neg = True
        else:
          raise NotImplementedError("in-class item %r" % (o,))
      u = z3.Union(*alts) if len(alts) > 1 else alts[0]
      if neg:
        u = z3.Diff(z3.AllChar(z3.ReSort(z3.StringSort())), u)
      parts.append(u)
    elif op == sc.SUBPATTERN:
      parts.append(_conv(av[3]))
    elif op == sc.BRANCH:
      parts.append(z3.Union(*[_conv(x) for x in av[1]]))
    elif op in (sc.MAX_REPEAT, sc.MIN_REPEAT):
      lo, hi, sub = av
      r = _conv(sub)
      if hi == sc.MAXREPEAT:
        parts.append(z3.Concat(*([r] * lo + [z3.Star(r)])) if lo else z3.Star(r))
      else:
        parts.append(z3.Loop(r, lo, hi))
    elif op == sc.AT and av == sc.AT_END:
      # '$' at the very end of a pattern used with strings that contain no newline: end of string
      parts.append(z3.Re(z3.StringVal("")))
    else:
      raise NotImplementedError("regex node %r" % (op,))
  if not parts:
    return z3.Re(z3.StringVal(""))
  return z3.Concat(*parts) if len(parts) > 1 else parts[0]


def ANY():
  return z3.Star(z3.AllChar(z3.ReSort(z3.StringSort())))


def to_z3(pattern):
  return _conv(sp.parse(pattern))


def search_language(pattern):
  """the set of strings s with re.search(pattern, s) is not None"""
  return z3.Concat(ANY(), to_z3(pattern), ANY())


def match_language(pattern):
  """the set of strings s with re.match(pattern, s) is not None"""
  return z3.Concat(to_z3(pattern), ANY())


def validate(pattern, alphabet, n=500, seed=1, maxlen=9, mode="search"):
  """differential check of the translation against Python's re on generated strings; returns #disagreements"""
  rnd = random.Random(seed)
  R = search_language(pattern) if mode == "search" else match_language(pattern)
  bad = 0
  s = z3.Solver()
  for _ in range(n):
    t = "".join(rnd.choice(alphabet) for _ in range(rnd.randint(0, maxlen)))
    s.push()
    s.add(z3.InRe(z3.StringVal(t), R))
    zr = s.check() == z3.sat
    s.pop()
    pr = (re.search(pattern, t) if mode == "search" else re.match(pattern, t)) is not None
    if zr != pr:
      bad += 1
  return bad
