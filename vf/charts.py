"""Chart generator and oracle shared by the HSM properties (DESIGN.md 4.1).

A chart is described by plain integer tables:
  parent[i]  parent state of i (-1 = top); parent[i] < i
  react[i]   reaction of state i to the user signal:
               >= 0  transition to that state
               R_HANDLE   handle internally (HANDLED)
               R_DECLINE  decline (UNHANDLED, e.g. a failed guard)
               R_PASS     name the parent (SUPER)
  init[i]    target of i's initial transition (a proper descendant) or -1
Handlers are real function objects (one per state) that log every *action*
(offer of the user signal, entry, exit, init) into `log` and answer every internal probe
(SEARCH_FOR_SUPER, EMPTY, REFLECTION on un-decorated states) by naming their parent, as the
documented handler shape does.

The oracle is written from the property statements (C01-C03), with list arithmetic on the
tables only; it never looks at the implementation.
"""
R_HANDLE, R_DECLINE, R_PASS = -1, -2, -3

# bits of `hx`: which of entry/exit/init the states do NOT handle explicitly (they fall through
# to the final `else: SUPER` branch, silently, as hand-written states without such an action do)
HX_ENTRY, HX_EXIT, HX_INIT = 1, 2, 4


def anc(parent, i):
  """i, parent(i), ..., outermost (top excluded)"""
  out = []
  while i >= 0:
    out.append(i)
    i = parent[i]
  return out


class Chart:
  def __init__(self, parent, react, init, sig_name="PX", decorate=False, hx=0, fresh=True,
               none_for=None, names=None, call_limit=0):
    from vf import core
    import miros.event as ev
    if fresh:
      core.fresh_miros()
    self.signals = ev.signals
    self.Event = ev.Event
    self.rs = ev.return_status
    self.parent, self.react, self.init = list(parent), list(react), list(init)
    self.sig_name = sig_name
    self.SIG = self.Event(signal=sig_name).signal
    self.log = []
    self.ncalls = 0
    self.call_limit = call_limit
    self.calls = []          # every call a handler received: (signal_name, state, returned status)
    self.enter_return = []   # the same calls as enter / return events (nested calls: a handler that queries the chart while it handles)
    self.hx = hx
    self.none_for = none_for or {}   # state -> set of signal kinds for which it returns None (C24)
    self.names = names or ["s%d" % i for i in range(len(parent))]
    self.raw = [None] * len(parent)
    self.hs = [None] * len(parent)
    for i in range(len(parent)):
      self.raw[i] = self._mk(i)
    if decorate:
      from miros.hsm import spy_on
      for i in range(len(parent)):
        self.hs[i] = spy_on(self.raw[i])
    else:
      for i in range(len(parent)):
        self.hs[i] = self.raw[i]

  def _mk(self, i):
    ch = self
    signals, rs = self.signals, self.rs
    ENTRY, EXIT, INIT = signals.ENTRY_SIGNAL, signals.EXIT_SIGNAL, signals.INIT_SIGNAL

    def h(chart, e):
      ch.ncalls += 1
      if ch.call_limit and ch.ncalls > ch.call_limit:
        from vf.core import HarnessAbort
        raise HarnessAbort("call limit")
      s = e.signal
      ch.enter_return.append(("E", e.signal_name, i, None))
      status = ch._react(i, chart, s)
      ch.calls.append((e.signal_name, i, status))
      ch.enter_return.append(("R", e.signal_name, i, status))
      return status
    h.__name__ = self.names[i]
    h.__qualname__ = self.names[i]
    return h

  def _react(self, i, chart, s):
    signals, rs = self.signals, self.rs
    nf = self.none_for.get(i, ())
    if "all" in nf:
      # a malformed handler that returns no status for anything (C24)
      if s == self.SIG:
        self.log.append(("of", i))
      elif s == signals.ENTRY_SIGNAL:
        self.log.append(("en", i))
      return None
    hook = getattr(self, "action_hook", None)
    if s == signals.ENTRY_SIGNAL:
      if not (self.hx & HX_ENTRY):
        self.log.append(("en", i))
        if hook:
          hook("en", i, chart)
        return rs.HANDLED
    elif s == signals.EXIT_SIGNAL:
      if not (self.hx & HX_EXIT):
        self.log.append(("ex", i))
        if hook:
          hook("ex", i, chart)
        return rs.HANDLED
    elif s == signals.INIT_SIGNAL:
      if self.init[i] >= 0:
        self.log.append(("in", i))
        if hook:
          hook("in", i, chart)
        return chart.trans(self.hs[self.init[i]])
      if not (self.hx & HX_INIT):
        self.log.append(("in", i))
        if hook:
          hook("in", i, chart)
        return rs.HANDLED
    elif s == self.SIG:
      self.log.append(("of", i))
      if "user" in nf or "all" in nf:
        return None
      r = self.react[i]
      if r >= 0:
        return chart.trans(self.hs[r])
      if r == R_HANDLE:
        return rs.HANDLED
      if r == R_DECLINE:
        return rs.UNHANDLED
    if "all" in nf:
      return None
    chart.temp.fun = chart.top if self.parent[i] < 0 else self.hs[self.parent[i]]
    return rs.SUPER

  # ---- oracle -------------------------------------------------------------------------
  def _want(self, kind, i):
    if kind == "en":
      return not (self.hx & HX_ENTRY)
    if kind == "ex":
      return not (self.hx & HX_EXIT)
    if kind == "in":
      return self.init[i] >= 0 or not (self.hx & HX_INIT)
    return True

  def _emit(self, log, kind, i):
    if self._want(kind, i):
      log.append((kind, i))

  def oracle_init_tail(self, log, t):
    """follow initial transitions from t (already entered); returns the resting state"""
    parent, init = self.parent, self.init
    while True:
      self._emit(log, "in", t)
      if init[t] < 0:
        return t
      tgt = init[t]
      chain = []
      x = tgt
      while x != t:
        chain.append(x)
        x = parent[x]
      for x in reversed(chain):
        self._emit(log, "en", x)
      t = tgt

  def oracle_dispatch(self, cur):
    """expected action log and resting state for one user event from `cur` (C01, C02)"""
    parent, react = self.parent, self.react
    log = []
    path = anc(parent, cur)
    S = None
    for s in path:
      log.append(("of", s))
      if react[s] == R_HANDLE:
        return log, cur, "handled"
      if react[s] >= 0:
        S = s
        break
    if S is None:
      return log, cur, "ignored"
    T = react[S]
    at, as_ = anc(parent, T), anc(parent, S)
    if S == T:
      L = parent[S]
    elif S in at:        # S encloses T
      L = S
    elif T in as_:       # T encloses S
      L = T
    else:
      L = -1
      for x in as_:
        if x in at:
          L = x
          break
    for s in path:
      if s == L:
        break
      self._emit(log, "ex", s)
    ent = []
    for x in at:
      if x == L:
        break
      ent.append(x)
    for x in reversed(ent):
      self._emit(log, "en", x)
    rest = self.oracle_init_tail(log, T)
    return log, rest, "tran"

  def oracle_start(self, start):
    log = []
    for x in reversed(anc(self.parent, start)):
      self._emit(log, "en", x)
    rest = self.oracle_init_tail(log, start)
    return log, rest


def y_family(l, a, b, k, tsel, j1, j2, j3, passmode):
  """Y-with-tail chart of DESIGN 4.1.  Returns (parent, react, init, cur, S, T)."""
  parent = []
  for i in range(l):
    parent.append(i - 1)
  L = l - 1
  p = L
  src = []
  for _ in range(a):
    parent.append(p)
    p = len(parent) - 1
    src.append(p)
  p = L
  for _ in range(b):
    parent.append(p)
    p = len(parent) - 1
  n0 = len(parent)
  cur = src[-1]
  path = anc(parent, cur)
  S = path[k]
  T = tsel
  react = [R_DECLINE if passmode else R_PASS] * n0
  react[S] = T
  init = [-1] * n0
  p = T
  for hop in (j1, j2, j3):
    if hop <= 0:
      continue
    q = p
    for _ in range(hop):
      parent.append(q)
      q = len(parent) - 1
      react.append(R_PASS)
      init.append(-1)
    init[p] = q
    p = q
  return parent, react, init, cur, S, T
