"""Re-execute one concrete case of a harness in a plain Python process (no CrossHair, no tracing)
against /repo and print the oracle's verdict."""
import importlib
import json
import sys
import traceback


def main():
  prop, harness, case = sys.argv[1], sys.argv[2], json.loads(sys.argv[3])
  mod = importlib.import_module("vf.props." + prop)
  try:
    fn = mod.CASES[harness]
    out = fn(*case)
    res = {"ran": True, "ok": bool(out.ok), "sig": out.sig, "detail": out.detail}
  except BaseException:
    res = {"ran": False, "error": traceback.format_exc()[-2000:]}
  print("REPLAY-RESULT " + json.dumps(res))


if __name__ == "__main__":
  main()
