"""C30 Singletons stay single even when first requested concurrently (DESIGN 6/C30).  E2 (threads) + E1 (life-cycle sequences)."""
from vf.core import PASS, FAIL
from vf.family import Family, set_tier_all, jobs_all
from vf.e2 import propbase

PROP = "C30"
PART = {}
LEVEL = "other"
SCN = "singleton"
FUNCTIONS = ["E1: miros.singleton.SingletonDecorator.__call__ on the five declared singletons through fabric / active-object life-cycle operations"]
ASSUMPTIONS = [
  "E2: threads = N callers of the real SingletonDecorator.__call__ (translated from /repo's source on this run); `instance` is a shared attribute "
  "(one step per load, one per store), the constructor call klass(...) is one step returning a fresh object, attributes of the decorator that are "
  "locks (found by introspection of a real decorator instance) are RLock models",
  "the five declared singletons all go through this one decorator class; constructors that request another singleton (ActiveFabricSource -> "
  "FiberThreadEvent) use a different decorator instance and do not change the argument",
  "E1: sequences request / fabric start / stop / clear / active object start / stop / request again with recording thread stand-ins; identity of the "
  "five singletons must not change",
]
OUTSIDE = ["more than 3 concurrent first callers", "constructors that re-enter the same decorator"]
EXPLANATION = ("Bounded model checking (QF_BV) of N concurrent first calls of the translated SingletonDecorator.__call__: no schedule lets two callers "
               "return different objects, no caller crashes, none is blocked for ever, and K covers every behaviour (adequacy query unsat). "
               "Plus CrossHair/z3 bounded symbolic execution of life-cycle sequences on the five real singletons (identity is kept).")
RULE = "E2: one evaluation = one BMC query over all schedules; E1: one case per (operation sequence)"
LIM = {"quick": dict(L=2), "thorough": dict(L=3)}
OPS = ["fabric.start", "fabric.stop", "fabric.clear", "ActiveObject() + start_at", "that object's stop", "fabric.stop + fabric.start"]


def bounds(tier):
  return {"threads": [2, 3] if tier == "quick" else [2, 3], "K": {2: 18, 3: 27}, "E1_sequence_length": LIM[tier]["L"], "E1_operations": OPS}


def pre(v, lim):
  if v["n"] > lim["L"]:
    return False
  for i, k in enumerate(("o1", "o2", "o3")):
    if i >= v["n"] and v[k] != 0:
      return False
  return True


def case(n, o1, o2, o3):
  from vf import hosts
  hsm, ao = hosts.install_stubs()
  import miros.event as ev
  import miros.activeobject as aomod
  names = ["ActiveFabric", "Signal", "ReturnStatus", "FiberThreadEvent", "InstrumentionWriter"]

  def grab():
    return [aomod.ActiveFabric(), ev.Signal(), ev.ReturnStatus(), aomod.FiberThreadEvent(), aomod.InstrumentionWriter()]
  first = grab()
  objs = []
  rs = ev.return_status

  def state(chart, e):
    if e.signal in (ev.signals.ENTRY_SIGNAL, ev.signals.INIT_SIGNAL, ev.signals.EXIT_SIGNAL):
      return rs.HANDLED
    chart.temp.fun = chart.top
    return rs.SUPER
  seq = [o1, o2, o3][:n]
  what = [OPS[o] for o in seq]
  try:
    for o in seq:
      fab = aomod.ActiveFabric()
      if o == 0:
        fab.start()
      elif o == 1:
        stop_fabric(fab)
      elif o == 2:
        fab.clear()
      elif o == 3:
        a = aomod.ActiveObject(name="x%d" % len(objs))
        a.start_at(state)
        objs.append(a)
      elif o == 4:
        if objs:
          stop_object(objs[-1])
      else:
        stop_fabric(fab)
        fab.start()
      now = grab()
      for nm, a, b in zip(names, first, now):
        if a is not b:
          return FAIL("singleton-replaced:" + nm, "after %s: %s() is no longer the instance handed out first" % (what, nm))
  except Exception as ex:
    return FAIL("raised:" + type(ex).__name__, "%s: %r" % (what, ex))
  return PASS(nontrivial=n > 0)


def stop_fabric(fab):
  """fabric.stop() with stand-in threads: join() runs the delivery bodies, which end on the cleared run event"""
  from vf.queued import WouldBlock
  try:
    fab.stop()
  except WouldBlock:
    pass


def stop_object(a):
  from vf.queued import WouldBlock
  try:
    a.stop()
  except WouldBlock:
    pass


Family(globals(), "h_lifecycle", params=[("n", 0, 3), ("o1", 0, 5), ("o2", 0, 5), ("o3", 0, 5)], pre=pre, case=case, split=["n"], tiers=LIM)


def set_tier(tier):
  set_tier_all(globals(), tier)


def jobs(tier):
  return jobs_all(globals(), tier)


def specs(tier):
  out = []
  for n, K in ((2, 18), (3, 27)):
    kw = dict(nthreads=n)
    out.append(dict(scenario=SCN, kwargs=kw, kind="reach", K=K, pred="all_done", timeout=600))
    out.append(dict(scenario=SCN, kwargs=kw, kind="safety", K=K, pred="singleton_bad", timeout=600, replay="singleton_replay"))
    out.append(dict(scenario=SCN, kwargs=kw, kind="safety", K=K, pred="any_crash", timeout=600, replay="singleton_replay"))
    out.append(dict(scenario=SCN, kwargs=kw, kind="deadlock", K=K, pred="someone_open", timeout=600, replay="singleton_replay"))
    out.append(dict(scenario=SCN, kwargs=kw, kind="adequacy", K=K, timeout=600))
  return out


def signature(spec, r):
  real = r["replay"]["real"]
  if spec["pred"] == "singleton_bad":
    return ("two-instances:concurrent-first-requests",
            "%d concurrent first requests on the real SingletonDecorator constructed %d objects and returned %d different ones; schedule: %s" % (
              spec["kwargs"]["nthreads"], real["objects_constructed"], real["distinct_objects_returned"], r["trace"]), real["distinct_objects_returned"] > 1)
  if spec["pred"] == "any_crash":
    return ("caller-crashed", "schedule: %s" % (r["trace"],), True)
  return ("caller-blocked", "callers finished %s; schedule: %s" % (real["callers_finished"], r["trace"]), len(real["callers_finished"]) < spec["kwargs"]["nthreads"])


def solver_part(tier, known):
  from vf.e2 import harness
  FUNCTIONS[1:] = propbase.functions_of(SCN, dict(nthreads=2))
  out = propbase.run(specs(tier), known, signature, differential=lambda: harness.singleton_differential(3, 15 if tier == "quick" else 60, seed=3))
  # the bound must cover every behaviour
  for q in out["coverage"]["bmc_queries"]:
    if q["kind"] == "adequacy" and q["result"] == "sat":
      out["inconclusive"].append("K=%s does not cover every behaviour of %s callers (adequacy query sat)" % (q["K"], q["kwargs"]))
  return out
