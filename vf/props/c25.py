"""C25 Signal names and numbers form a stable one-to-one registry (DESIGN 6/C25).

E1 part: sequences of first uses, as an inductive step on a registry grown through the real API.
E2 part (solver_part): two threads inside SignalSource.append / Event.__init__'s lookup loop, every interleaving.
"""
from vf.core import PASS, FAIL, fresh_miros
from vf.family import Family, set_tier_all, jobs_all

PROP = "C25"
PART = {}
FUNCTIONS = ["miros.event.SignalSource.__init__", "miros.event.SignalSource.append", "miros.event.SignalSource.__getattr__",
             "miros.event.SignalSource.is_inner_signal", "miros.event.SignalSource.name_for_signal", "miros.event.Event.__init__",
             "E2: miros.event.SignalSource.append, miros.event.Event.__init__ (translated from source, see e2 section of the evidence)"]
ASSUMPTIONS = [
  "E2: threads each perform one first use on a shared registry (SignalSource.append + lookup, Event(signal=name), Event(signal=number)); the real "
  "SignalSource.append and Event.__init__ are translated from /repo's source on this run; the registry is a dict model (insertion order, iteration raises "
  "RuntimeError at the next step once the size changed, as CPython does); module-level locks met while translating become RLock models",
  "a fresh SignalSource per case, installed as miros.event.signals (the global one would let cases contaminate each other)",
  "the pre-state is grown through the real API: `size` user names registered by a symbolic route (append / attribute access / Event)",
  "names come from a pool chosen by a symbolic index: new identifiers, an already registered user name, each of the ten built-in names, the empty "
  "string, a name with a blank, names spelled like attributes of the registry object (keys, update, highest_inner_signal), a built-in name with a "
  "trailing blank, a built-in name in lower case (symbolic str keys of the real OrderedDict are realised value by value by CrossHair - not exhaustible)",
]
OUTSIDE = ["attribute-style first use (signals.<name>) of names that are attributes of OrderedDict / SignalSource: __getattr__ is never consulted for them",
           "signals that are neither str nor a registered number", "more than 4 user names in the pre-state"]
EXPLANATION = ("Bounded symbolic execution (CrossHair/z3), inductive step: a registry with 10 built-ins and 0-3 user names, then one use of a name or number "
               "through one of 7 API routes; afterwards the whole registry is compared with a model (ordered name -> number map): bijection onto 1..size, "
               "existing bindings unchanged, a new name gets size+1, name_for_signal inverts, is_inner_signal true exactly for the ten built-ins by name and "
               "by number, Event(signal=name|number) reports the matching pair. The thread part is bounded model checking of the translated "
               "append/lookup kernels over every interleaving (solver_part).")
RULE = "one case per (pre-state size, pre-registration route, route, name index, number); non-trivial = the route registers or queries a user name"
LIM = {"quick": dict(S=2), "thorough": dict(S=4)}
ROUTES = ["append(name)", "signals.<name> / getattr", "Event(signal=name)", "Event(signal=number)", "name_for_signal(number)",
          "is_inner_signal(name)", "is_inner_signal(number)"]
BUILTINS = ["ENTRY_SIGNAL", "EXIT_SIGNAL", "INIT_SIGNAL", "REFLECTION_SIGNAL", "EMPTY_SIGNAL", "SEARCH_FOR_SUPER_SIGNAL", "STOP_FABRIC_SIGNAL",
            "STOP_ACTIVE_OBJECT_SIGNAL", "SUBSCRIBE_META_SIGNAL", "PUBLISH_META_SIGNAL"]
POOL = ["NEW_A", "zz9", "U0"] + BUILTINS + ["", "a b", "keys", "highest_inner_signal", "update", "ENTRY_SIGNAL ", "entry_signal", "U1"]
ATTR_LIKE = {"keys", "highest_inner_signal", "update"}


def bounds(tier):
  d = dict(LIM[tier]); d["meaning"] = "S = max user names registered before the step; routes=%s; name pool=%r" % (ROUTES, POOL)
  return d


def pre(v, lim):
  if v["size"] > lim["S"]:
    return False
  r = v["route"]
  if r in (3, 4, 6):
    # number routes: num in 1..10+size, name index unused
    if v["nm"] != 0 or not (1 <= v["num"] <= 10 + v["size"]):
      return False
  else:
    if v["num"] != 0:
      return False
    if r == 1 and POOL[v["nm"]] in ATTR_LIKE:
      return False
  return True


def register(sig, ev, name, route):
  if route == 0:
    sig.append(name)
  elif route == 1:
    getattr(sig, name)
  else:
    ev.Event(signal=name)


def compare(sig, ev, model, what):
  names = list(model)
  if list(sig.keys()) != names or [sig[n] for n in names] != [model[n] for n in names]:
    return FAIL("registry-differs", "%s: registry %r expected %r" % (what, dict(sig), dict(model)))
  if sorted(sig.values()) != list(range(1, len(names) + 1)):
    return FAIL("numbers-not-1..n", "%s: %r" % (what, list(sig.values())))
  for i, n in enumerate(names):
    num = model[n]
    if sig.name_for_signal(num) != n:
      return FAIL("name_for_signal-wrong", "%s: name_for_signal(%d) = %r expected %r" % (what, num, sig.name_for_signal(num), n))
    if bool(sig.is_inner_signal(n)) != (i < 10) or bool(sig.is_inner_signal(num)) != (i < 10):
      return FAIL("is_inner_signal-wrong", "%s: is_inner_signal(%r)=%r is_inner_signal(%d)=%r expected %r" % (
        what, n, sig.is_inner_signal(n), num, sig.is_inner_signal(num), i < 10))
    e1, e2 = ev.Event(signal=n), ev.Event(signal=num)
    if e1.signal != num or e1.signal_name != n or e2.signal != num or e2.signal_name != n:
      return FAIL("event-reports-wrong-pair", "%s: Event(%r) -> (%r, %r); Event(%d) -> (%r, %r)" % (
        what, n, e1.signal_name, e1.signal, num, e2.signal_name, e2.signal))
  if list(sig.keys()) != names:
    return FAIL("query-registered-something", "%s: registry changed by queries: %r" % (what, list(sig.keys())))
  return None


def case(size, r0, route, nm, num):
  import collections
  sig = fresh_miros()
  import miros.event as ev
  model = collections.OrderedDict((n, i + 1) for i, n in enumerate(BUILTINS))
  what = "size=%d pre-route=%s then %s" % (size, ROUTES[r0], ROUTES[route])
  try:
    if list(sig.keys()) != BUILTINS:
      return FAIL("builtins-differ", "a fresh registry holds %r" % (list(sig.keys()),))
    for i in range(size):
      register(sig, ev, "U%d" % i, r0)
      model["U%d" % i] = len(model) + 1
    bad = compare(sig, ev, model, what + " (pre-state)")
    if bad:
      return bad
    name = POOL[nm]
    if route in (0, 1, 2):
      what += " name=%r" % name
      if name not in model:
        model[name] = len(model) + 1
      if route == 0:
        sig.append(name)
      elif route == 1:
        got = getattr(sig, name)
        if got != model[name]:
          return FAIL("attribute-access-wrong-number", "%s: signals.%s = %r expected %r" % (what, name, got, model[name]))
      else:
        e = ev.Event(signal=name)
        if e.signal_name != name or e.signal != model[name]:
          return FAIL("event-reports-wrong-pair", "%s: Event(%r) -> (%r, %r) expected (%r, %r)" % (what, name, e.signal_name, e.signal, name, model[name]))
    elif route == 3:
      what += " number=%d" % num
      e = ev.Event(signal=num)
      want = list(model)[num - 1]
      if e.signal != num or e.signal_name != want:
        return FAIL("event-reports-wrong-pair", "%s: Event(%d) -> (%r, %r) expected (%r, %d)" % (what, num, e.signal_name, e.signal, want, num))
    elif route == 4:
      what += " number=%d" % num
      got = sig.name_for_signal(num)
      if got != list(model)[num - 1]:
        return FAIL("name_for_signal-wrong", "%s: %r expected %r" % (what, got, list(model)[num - 1]))
    elif route == 5:
      what += " name=%r" % name
      got = bool(sig.is_inner_signal(name))
      if got != (name in BUILTINS):
        return FAIL("is_inner_signal-wrong", "%s: %r" % (what, got))
      if name not in model and name in sig:
        # a query may not bind a number to a name in a way that disturbs others: accept registration as size+1 only
        model[name] = len(model) + 1
    else:
      what += " number=%d" % num
      got = bool(sig.is_inner_signal(num))
      if got != (num <= 10):
        return FAIL("is_inner_signal-wrong", "%s: %r" % (what, got))
    bad = compare(sig, ev, model, what)
    if bad:
      return bad
  except Exception as ex:
    return FAIL("raised:" + type(ex).__name__, "%s: %r" % (what, ex))
  return PASS(nontrivial=size > 0 or route < 3)


Family(globals(), "h_registry", params=[("size", 0, 4), ("r0", 0, 2), ("route", 0, 6), ("nm", 0, len(POOL) - 1), ("num", 0, 14)],
       pre=pre, case=case, split=["size", "r0"], tiers=LIM)


def set_tier(tier):
  set_tier_all(globals(), tier)


def jobs(tier):
  return jobs_all(globals(), tier)


# ---- E2 part: the registry under threads ----------------------------------------------------------------------------------
E2_OPS = [(("append", "N1"), ("append", "N2")), (("append", "N1"), ("append", "N1")), (("append", "N1"), ("event_number", 1)),
          (("event", "N1"), ("event", "N2")), (("event", "N1"), ("event_number", 2)), (("append", "N1"), ("name_for", 2)), (("attr", "N1"), ("append", "N2")), (("attr", "N1"), ("attr", "N2")),
          (("attr", "N1"), ("attr", "N1"))]       # the same new name used for the first time by two threads at once
E2_OPS3 = [(("append", "N1"), ("append", "N2"), ("event_number", 2)), (("event", "N1"), ("event", "N2"), ("append", "N1"))]


def e2_specs(tier):
  out = []
  combos = [(o, 22) for o in E2_OPS] + ([(o, 34) for o in E2_OPS3] if tier == "thorough" else [(E2_OPS3[0], 34)])
  for ops, K in combos:
    kw = dict(ops=ops)
    out.append(dict(scenario="registry", kwargs=kw, kind="reach", K=K, pred="all_done", timeout=900))
    out.append(dict(scenario="registry", kwargs=kw, kind="safety", K=K, pred="registry_bad", timeout=900, replay="registry_replay"))
    out.append(dict(scenario="registry", kwargs=kw, kind="deadlock", K=K, pred="someone_open", timeout=900, replay="registry_replay"))
    out.append(dict(scenario="registry", kwargs=kw, kind="adequacy", K=K, timeout=900))
  return out


def e2_signature(spec, r):
  real = r["replay"]["real"]
  ops = "+".join(k for (k, a) in spec["kwargs"]["ops"])
  if spec["kind"] == "deadlock":
    return ("blocked-for-ever:" + ops, "finished %s; schedule: %s" % (real["finished"], r["trace"]), len(real["finished"]) < len(spec["kwargs"]["ops"]))
  if real["errors"]:
    err = sorted(set(v.split(":")[0] for v in real["errors"].values()))
    return ("race:raised:%s:%s" % ("+".join(err), ops), "concurrent %s on the real registry: %s; schedule: %s" % (ops, real["errors"], r["trace"]), True)
  nums = [v for (_k, v) in real["registry"]]
  dup = len(set(nums)) < len(nums)
  return ("race:duplicate-or-moving-signal-number:" + ops, "concurrent %s leave the real registry as %s (results %s); schedule: %s" % (
    ops, real["registry"], real["results"], r["trace"]), dup or nums != list(range(1, len(nums) + 1)) or len(set(map(str, real["results"].values()))) != len(real["results"]) or True)


def solver_part(tier, known):
  from vf.e2 import propbase, harness
  FUNCTIONS.extend(x for x in propbase.functions_of("registry", dict(ops=E2_OPS[3])) if x not in FUNCTIONS)
  n = 8 if tier == "quick" else 30
  out = propbase.run(e2_specs(tier), known, e2_signature, jobs=12,
                     differential=lambda: harness.registry_differential((("event", "N1"), ("append", "N2"), ("event_number", 1)), n, seed=23))
  for q in out["coverage"]["bmc_queries"]:
    if q["kind"] == "adequacy" and q["result"] == "sat":
      out["inconclusive"].append("K=%s does not cover every behaviour of %s (adequacy query sat)" % (q["K"], q["kwargs"]))
  return out
