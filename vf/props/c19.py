"""C19 The spy log records exactly the state invocations the processor made (DESIGN 6/C19)."""
from vf.core import PASS, FAIL
from vf.family import Family, set_tier_all, jobs_all
from vf import hosted, hosts

PROP = "C19"
PART = {}
FUNCTIONS = ["miros.hsm.spy_on", "miros.hsm.spy_on_start", "miros.hsm.InstrumentedHsmEventProcessor.dispatch (append_to_full_spy)",
             "miros.hsm.append_queue_reflection_after_start", "miros.hsm.HsmWithQueues.next_rtc (append_queue_reflection_to_spy)",
             "miros.hsm.HsmWithQueues.spy_rtc/spy_full/spy", "miros.event.SignalSource.is_inner_signal"]
ASSUMPTIONS = ["the generated handlers sit inside spy_on and record every call they receive (signal name, state, returned status): "
               "that record is the ground truth of 'invocations the processor made'",
               "threads of ActiveObject hosts are recorded, never run; steps are taken with next_rtc",
               "ring-buffer sizes are class attributes read at construction; the harness sets SPY_RING_BUFFER_SIZE to 5 in the truncation variant"]
OUTSIDE = ["charts larger than N", "posts/recalls/scribbles made by handlers during the step are covered by the h_markers family only for a one-state chart"]
EXPLANATION = ("Bounded symbolic execution (CrossHair/z3) of start_at and one step on the instrumented hosts with decorated states over the "
               "Y-with-tail chart family and three reaction kinds. Oracle: spy_rtc = for each handler invocation the line 'SIG:state' followed by "
               "'SIG:state:HOOK' iff the signal is not a built-in and the state returned HANDLED, START first for start_at, the queue "
               "reflection line last on queued hosts; the full spy is the concatenation of the step logs, last SPY_RING_BUFFER_SIZE entries. "
               "A second family (h_markers) checks the POST_FIFO/POST_LIFO/POST_DEFERRED/RECALL/scribble markers of handler-side actions.")
RULE = "one case per (chart tuple, reaction kind, host, ring size); non-trivial = more than three spy lines in the step"
LIM = {"quick": dict(N=4), "thorough": dict(N=6)}
IHOSTS = [1, 2, 4, 5]


def bounds(tier):
  d = dict(LIM[tier]); d["meaning"] = "N = max states; rk 0 transition/1 handled (HOOK)/2 ignored; hosts=%s; ring 0 default/1 SPY_RING_BUFFER_SIZE=5" % [hosts.HOSTS[i] for i in IHOSTS]
  return d


def pre(v, lim):
  if v["l"] + v["a"] + v["b"] + v["j1"] > lim["N"]:
    return False
  if not (v["k"] < v["l"] + v["a"] and v["tsel"] < v["l"] + v["a"] + v["b"]):
    return False
  if v["rk"] != 0 and (v["tsel"] != 0 or v["j1"] != 0):
    return False
  return True


def lines_for(ch, calls):
  out = []
  for (sname, st, status) in calls:
    out.append("%s:%s" % (sname, ch.names[st]))
    if not ch.signals.is_inner_signal(sname) and status == ch.rs.HANDLED:
      out.append("%s:%s:HOOK" % (sname, ch.names[st]))
  return out


def case(l, a, b, k, tsel, j1, pm, rk, hosti, ring):
  host = IHOSTS[hosti]
  what = "host=%s rk=%d ring=%d" % (hosts.HOSTS[host], rk, ring)
  rings = {"spy": 5} if ring else None
  try:
    ch, c, o1, o2 = hosted.run(l, a, b, k, tsel, j1, pm, host, 1, rk=rk, rings=rings)
  except Exception as ex:
    return FAIL("raised:%s" % type(ex).__name__, "%s: %r" % (what, ex))
  refl = ["<- Queued:(0) Deferred:(0)"] if host >= 2 else []
  exp1 = ["START"] + lines_for(ch, o1.calls) + refl
  exp2 = lines_for(ch, o2.calls) + refl
  if o1.spy_rtc != exp1:
    return FAIL("spy-rtc-after-start", "%s: %s expected %s" % (what, o1.spy_rtc, exp1))
  if o2.spy_rtc != exp2:
    return FAIL("spy-rtc-after-step", "%s: %s expected %s" % (what, o2.spy_rtc, exp2))
  full = exp1 + exp2
  if ring:
    full = full[-5:]
  if o2.spy_full != full:
    return FAIL("spy-full", "%s: %s expected %s" % (what, o2.spy_full, full))
  if host >= 2 and c.spy() != full:
    return FAIL("spy()-differs-from-full", what)
  return PASS(nontrivial=len(exp2) > 3)


Family(globals(), "h_spy", params=[("l", 0, 2), ("a", 1, 3), ("b", 0, 3), ("k", 0, 4), ("tsel", 0, 7), ("j1", 0, 3), ("pm", 0, 1), ("rk", 0, 2),
                                   ("hosti", 0, 3), ("ring", 0, 1)],
       pre=pre, case=case, split=["hosti", "ring"], tiers=LIM)


# ---- markers of handler-side actions -----------------------------------------------------------
from vf import queued   # noqa: E402


def pre_m(v, lim):
  return True


def case_m(hosti, np_, nd, script, scrib):
  """one-state decorated chart; the handler performs a script of posts/defer/recall (and optionally a scribble) during the step"""
  host = 0 if hosti == 0 else 1
  qc = queued.QCase(host, 1, 1)
  c = qc.chart
  for _ in range(np_):
    c.post_fifo(qc.new_event("P"))
  for _ in range(nd):
    c.defer(qc.new_event("D"))
  qc.script = queued.SCRIPTS[script]
  qc.scrib = bool(scrib)
  c.post_fifo(qc.new_event("X"))
  # bring X to the front so that it is the event whose handler runs the script
  c.queue.rotate(1) if hasattr(c.queue, "rotate") else c.queue.deque.rotate(1)
  pend_before = qc.pending()
  c.next_rtc()
  rtc = c.spy_rtc()
  first = pend_before[0]
  exp = ["%s:only" % first]
  if scrib:
    exp.append("note")
  deferred = ["T_D%d" % i for i in range(np_, np_ + nd)]
  npend = len(pend_before) - 1
  fresh = 0
  for a in qc.script:
    if a == 0:
      exp.append("POST_FIFO:T_H%d" % (np_ + nd + 1 + fresh)); fresh += 1; npend += 1
    elif a == 1:
      exp.append("POST_LIFO:T_H%d" % (np_ + nd + 1 + fresh)); fresh += 1; npend += 1
    elif a == 2:
      exp.append("POST_DEFERRED:%s" % first); deferred.append(first)
    else:
      if deferred:
        x = deferred.pop(0)
        exp.append("RECALL:%s" % x)
        exp.append("POST_FIFO:%s" % x)
        npend += 1
  exp.append("%s:only:HOOK" % first)
  exp.append("<- Queued:(%d) Deferred:(%d)" % (npend, len(deferred)))
  what = "host=%d np=%d nd=%d script=%s" % (host, np_, nd, qc.script)
  if rtc != exp:
    return FAIL("spy-markers", "%s: %s expected %s" % (what, rtc, exp))
  return PASS(nontrivial=len(qc.script) > 0)


Family(globals(), "h_markers", params=[("hosti", 0, 1), ("np", 0, 2), ("nd", 0, 2), ("script", 0, 20), ("scrib", 0, 1)],
       pre=pre_m, case=case_m, split=["hosti"], tiers=LIM)


# ---- a state that queries the chart (is_in / child_state) while it handles an event -------------------------------------------
def pre_q(v, lim):
  return True


def case_q(hosti, by, qkind, qarg, rk):
  """chain outer(0) > middle(1) > inner(2), current inner; state `by` answers the event (rk 0: handles it internally, 1: transition to outer);
  while answering it calls is_in(state qarg) (qkind 0) or child_state(state qarg) (qkind 1)"""
  from vf import charts
  host = IHOSTS[hosti]
  parent = [-1, 0, 1]
  react = [charts.R_PASS] * 3
  react[by] = charts.R_HANDLE if rk == 0 else 0
  what = "host=%s answered by s%d (%s), which calls %s(s%d) first" % (hosts.HOSTS[host], by, "hook" if rk == 0 else "transition", ["is_in", "child_state"][qkind], qarg)
  try:
    c, _sl, _tl = hosts.make(host)
    ch = charts.Chart(parent, react, [-1, -1, -1], decorate=True, fresh=False)
    orig = ch._react

    def react_with_query(i, chart, s):
      if i == by and s == ch.SIG:
        if qkind == 0:
          chart.is_in(ch.hs[qarg])
        else:
          chart.child_state(ch.hs[qarg])
      return orig(i, chart, s)
    ch._react = react_with_query
    c.start_at(ch.hs[2])
    del ch.enter_return[:]
    hosts.step(c, host, ch.Event(signal=ch.SIG))
    rtc = list(c.rtc.spy)
  except Exception as ex:
    return FAIL("raised:%s" % type(ex).__name__, "%s: %r" % (what, ex))
  exp = []
  for (kind, sname, st, status) in ch.enter_return:
    if kind == "E":
      exp.append("%s:%s" % (sname, ch.names[st]))
    elif not ch.signals.is_inner_signal(sname) and status == ch.rs.HANDLED:
      exp.append("%s:%s:HOOK" % (sname, ch.names[st]))
  if host >= 2:
    exp.append("<- Queued:(0) Deferred:(0)")
  if rtc != exp:
    bad_hook = [x for x in rtc if x.endswith(":HOOK")] != [x for x in exp if x.endswith(":HOOK")]
    return FAIL("spy-hook-marker-wrong-state" if bad_hook else "spy-rtc-with-query", "%s: %s expected %s" % (what, rtc, exp))
  return PASS(nontrivial=True)


Family(globals(), "h_hook_query", params=[("hosti", 0, 3), ("by", 0, 2), ("qkind", 0, 1), ("qarg", 0, 2), ("rk", 0, 1)], pre=pre_q, case=case_q, split=[], tiers=LIM)


def set_tier(tier):
  set_tier_all(globals(), tier)


def jobs(tier):
  return jobs_all(globals(), tier)
