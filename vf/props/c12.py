"""C12 stop() ends the active object's thread and its timed sources (DESIGN 6/C12).  Engine E2."""
from vf.e2 import propbase

PROP = "C12"
PART = {}
LEVEL = "model_checking"
CASES = {}
SCN = "stopping"
FUNCTIONS = []
ASSUMPTIONS = [
  "threads: a caller running the real ActiveObject.stop (variant A), the object's own thread running the real run_event -> next_rtc with a dispatch stub "
  "(variant B: the stub of the first pending event calls the real stop from inside the step), and one or two timer threads running the real "
  "post_event_thread_runner closure of __post_event; all translated from /repo's source on this run",
  "pre-state: the timed sources are already tracked (records with their run flags) and their timer threads already started - the state __post_event leaves "
  "behind (the replay builds it through the real post_fifo(period=...))",
  "ghost state: `returned` is set when stop() has returned in the caller; every dispatch and every insertion by a timer thread after that is recorded; an "
  "insertion is 'fresh' when the timer's last look at its run flag was after the return as well, 'stale' when it looked before the return and posts after",
  "time.sleep is a step that may take arbitrarily long relative to the other threads; thread.join is enabled when the object's thread function has returned; "
  "joining the current thread raises RuntimeError as in CPython",
  "other active objects and the fabric: their run flags are separate objects the translated stop() never touches (checked on the translated program: it has no "
  "operation on them)",
]
OUTSIDE = ["a caller blocked on a full wake-up token queue after the consumer is gone (capacity race, outside C05/C16's claims as well)",
           "more than 2 timed sources, more than 2 firings each, schedules longer than K", "stop() racing with a concurrent timed post that is being created (E1 part of C31)"]
EXPLANATION = ("Bounded model checking (QF_BV) over every schedule of caller x consumer x timer threads: after stop() has returned the object's thread has ended, "
               "no dispatch happens, every tracked source has its run flag down and is untracked, no timer posts after a fresh look at its flag, nobody crashes, "
               "and stop() is not blocked for ever; stop() from a handler ends the thread after the current step (no later dispatch). The remaining window - a "
               "timer that looked at its flag before the return and posts after it - is reported as the recorded known finding and replayed on the real code.")
RULE = "one evaluation = one BMC query over all schedules up to K"


def scenarios(tier):
  a = dict(action="stop", sources=1, times=2)
  b = dict(action="stop", sources=1, times=1, pending=1)
  c = dict(handler_stop=True, pending=2, sources=1, times=1)
  d = dict(action="stop", sources=2, times=1, other_source=True)
  if tier == "quick":
    return [(a, 28), (b, 28), (c, 28)]
  return [(a, 36), (b, 36), (c, 36), (d, 34)]


def bounds(tier):
  return {"scenarios": [{"kwargs": k, "K": K} for k, K in scenarios(tier)], "meaning": "sources = timed sources with `times` firings; pending = events queued at the start; "
          "handler_stop = stop() is called by the handler of the first pending event; capacity 3"}


def jobs(tier):
  return []


def specs(tier):
  out = []
  to = 900 if tier == "quick" else 3000
  for (kw, K) in scenarios(tier):
    if kw.get("handler_stop"):
      out.append(dict(scenario=SCN, kwargs=kw, kind="reach", K=K, pred="handler_stopped", timeout=to))
      out.append(dict(scenario=SCN, kwargs=kw, kind="safety", K=K, pred="handler_stop_bad", timeout=to, replay="stopping_replay"))
      out.append(dict(scenario=SCN, kwargs=kw, kind="deadlock", K=K, pred="consumer_alive_after_handler_stop", timeout=to, replay="stopping_replay"))
    else:
      out.append(dict(scenario=SCN, kwargs=kw, kind="reach", K=K + 8, pred="returned", timeout=to))
      out.append(dict(scenario=SCN, kwargs=kw, kind="safety", K=K, pred="stop_bad", timeout=to, replay="stopping_replay"))
      out.append(dict(scenario=SCN, kwargs=kw, kind="safety", K=K, pred="late_stale", timeout=to, replay="stopping_replay"))
      out.append(dict(scenario=SCN, kwargs=kw, kind="deadlock", K=K, pred="caller_stuck_not_capacity", timeout=to, replay="stopping_replay"))
  return out


def signature(spec, r):
  real = r["replay"]["real"]
  g = r.get("ghost") or {}
  tr = r["trace"]
  if spec["pred"] == "late_stale":
    return ("race:timer-check-then-post", "a timer thread that saw its run flag up before %s returned posts its event after the return (real run: caller returned at "
            "operation %s, timer insert at %s); schedule: %s" % (spec["kwargs"].get("action", "stop"), real["caller_returned_at_op"], real["timer_inserts_at_ops"], tr),
            real["timer_insert_after_return"])
  if spec["kind"] == "deadlock":
    who = "caller" if spec["pred"].startswith("caller") else "object thread"
    fin = real["finished_threads"]
    return ("blocked-for-ever:" + who.replace(" ", "-"), "%s never finishes; finished threads %s; schedule: %s" % (who, fin, tr), (0 if who == "caller" else 1) not in fin)
  if any("exc:" in t for t in tr[-1:]):
    return ("thread-crashed", "schedule: %s" % (tr,), True)
  if g.get("g.late_dispatch"):
    ok = real["dispatch_after_return"] or real["dispatch_after_handler_stop"]
    return ("dispatch-after-stop", "a run-to-completion step ran after stop (real dispatches %s, returned at %s); schedule: %s" % (real["dispatches"], real["caller_returned_at_op"], tr), ok)
  if g.get("g.late_fresh"):
    return ("timer-posts-after-stop:fresh-flag-check", "a timer thread looked at its run flag after the call had returned, found it up and posted; schedule: %s" % (tr,),
            real["timer_insert_after_return"])
  if real["caller_returned_at_op"] is not None and 1 not in real["finished_threads"] and not spec["kwargs"].get("handler_stop") and spec["pred"] == "stop_bad":
    return ("thread-alive-after-stop", "stop() returned, the object's thread has not ended; schedule: %s" % (tr,), True)
  up = [i for i, f in enumerate(real["source_flags_up"]) if f]
  return ("sources-wrong-after-return", "after the call returned: source run flags up %s, %d source(s) still tracked; schedule: %s" % (up, real["tracked"], tr),
          real["caller_returned_at_op"] is not None)


def solver_part(tier, known):
  from vf.e2 import harness, check
  FUNCTIONS[:] = propbase.functions_of(SCN, scenarios(tier)[0][0])
  n = 8 if tier == "quick" else 30
  out = propbase.run(specs(tier), known, signature, jobs=11,
                     differential=lambda: harness.stopping_differential(dict(action="stop", sources=1, times=2, pending=1), n, seed=13))
  # isolation: the translated stop() has no operation on another object's run flag or on the fabric's
  sc, sysm = check.build(SCN, scenarios(tier)[0][0])
  from vf.e2 import ir
  for n_ in sysm.programs[0].nodes:
    if isinstance(n_, ir.Op) and not isinstance(n_.target, tuple) and n_.target.name in ("other.task_event", "fabric_event") and n_.name not in sysm.READS:
      out["inconclusive"].append("stop() writes %s" % n_.target.name)
  return out
