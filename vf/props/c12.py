"""C12 stop() ends the active object's thread and its timed sources (DESIGN 6/C12).  Engine E2."""
from vf.e2 import propbase

PROP = "C12"
PART = {}
LEVEL = "model_checking"
SCN = "stopping"
FUNCTIONS = []
ASSUMPTIONS = [
  "threads: a caller running the real ActiveObject.stop (variant A), the object's own thread running the real run_event -> next_rtc with a dispatch stub "
  "(variant B: the stub of the first pending event calls the real stop from inside the step), and one or two timer threads running the real "
  "post_event_thread_runner closure of __post_event; all translated from /repo's source on this run",
  "pre-state: the timed sources are already tracked (records with their run flags) and their timer threads already started - the state __post_event leaves "
  "behind (the replay builds it through the real post_fifo(period=...))",
  "ghost state: `returned` is set when stop() has returned in the caller; every dispatch and every insertion by a timer thread after that is recorded; an "
  "insertion is 'fresh' when the timer's last look at its run flag was after the return as well, 'stale' when it looked before the return and posts after",
  "time.sleep is a step that may take arbitrarily long relative to the other threads; thread.join is enabled when the object's thread function has returned; "
  "joining the current thread raises RuntimeError as in CPython",
  "E1 part (h_stop_phases): the real stop() on real objects with recording thread stand-ins, phase interleavings: the step in flight may start a new timed "
  "source or call stop() itself; a second active object and the fabric must stay up",
  "other active objects and the fabric: their run flags are separate objects the translated stop() never touches (checked on the translated program: it has no "
  "operation on them)",
]
OUTSIDE = ["more than 2 timed sources, more than 2 firings each, schedules longer than K", "stop() racing with a concurrent timed post that is being created (E1 part of C31)"]
EXPLANATION = ("Bounded model checking (QF_BV) over every schedule of caller x consumer x timer threads: after stop() has returned the object's thread has ended, "
               "no dispatch happens, every tracked source has its run flag down and is untracked, no timer posts after a fresh look at its flag, nobody crashes, "
               "and stop() is not blocked for ever; stop() from a handler ends the thread after the current step (no later dispatch). The remaining window - a "
               "timer that looked at its flag before the return and posts after it - is reported as the recorded known finding and replayed on the real code.")
RULE = "one evaluation = one BMC query over all schedules up to K"


def scenarios(tier):
  a = dict(action="stop", sources=1, times=2)
  b = dict(action="stop", sources=1, times=1, pending=1)
  c = dict(handler_stop=True, pending=2, sources=1, times=1)
  d = dict(action="stop", sources=2, times=1, other_source=True)
  if tier == "quick":
    return [(a, 28), (b, 28), (c, 28)]
  return [(a, 36), (b, 36), (c, 36), (d, 34)]


def bounds(tier):
  return {"scenarios": [{"kwargs": k, "K": K} for k, K in scenarios(tier)], "meaning": "sources = timed sources with `times` firings; pending = events queued at the start; "
          "handler_stop = stop() is called by the handler of the first pending event; capacity 3"}


# ---- E1 part: phase interleavings on the real objects (threads are recording stand-ins) -------------------------------
from vf.core import PASS, FAIL                     # noqa: E402
from vf.family import Family, set_tier_all, jobs_all   # noqa: E402

LIM = {"quick": dict(NS=2, PEND=2), "thorough": dict(NS=3, PEND=3)}
SRC_NAMES = ["W_A", "W_B", "W_A"]


def pre(v, lim):
  if v["ns"] > lim["NS"] or v["pend"] > lim["PEND"]:
    return False
  if v["pend"] == 0 and (v["hpost"] != 0 or v["where"] == 1):
    return False         # the handler variants need a step to run
  return True


def case(ns, pend, hpost, where, deferred):
  """ns tracked sources, pend pending events; the first pending event's handler posts a timed source (hpost: 0 no, 1 an existing name, 2 a new name)
  and/or calls stop() itself (where=1); where=0: stop() is called from outside while that step is in flight"""
  from vf import fabric, hosts
  hsm, ao = fabric.install()
  import miros.event as ev
  vt = fabric.VirtualTime()
  ao.time = vt
  rs, signals = ev.return_status, ev.signals
  log = []
  box = {}

  class StopThread(fabric.FabricThread):
    inside = False

    def join(self, timeout=None):
      if self.inside:
        raise RuntimeError("cannot join current thread")
      self.inside = True
      try:
        return super().join(timeout)
      finally:
        self.inside = False
  ao.Thread = StopThread

  def only(chart, e):
    if e.signal in (signals.ENTRY_SIGNAL, signals.INIT_SIGNAL, signals.EXIT_SIGNAL):
      return rs.HANDLED
    if e.signal_name.startswith("W"):
      log.append(e.signal_name)
      if e.signal_name == "W_P0":
        if hpost:
          chart.post_fifo(ev.Event(signal="W_A" if hpost == 1 else "W_NEW"), period=1, times=0, deferred=bool(deferred))
        if where == 1:
          chart.stop()
          box["stopped_in_handler"] = len(log)
      return rs.HANDLED
    chart.temp.fun = chart.top
    return rs.SUPER
  a = ao.ActiveObject(name="a")
  a.start_at(only)
  other, olog = fabric.make_active_object(ao, hsm, name="other")
  what = "sources=%d pending=%d handler-posts=%d stop-from=%s deferred=%d" % (ns, pend, hpost, "handler" if where else "outside", deferred)
  try:
    for i in range(ns):
      a.post_fifo(ev.Event(signal=SRC_NAMES[i]), period=1, times=0, deferred=bool(deferred))
    for i in range(pend):
      a.post_fifo(ev.Event(signal="W_P%d" % i))
    me = [t for t in hosts.SimThread.registry if getattr(t.target, "__name__", "") == "run_event" and t.args and t.args[-1] is a.queue][0]
    if where == 0:
      a.stop()
    else:
      me.inside = True
      try:
        me.target(fabric.AlreadyInside(me.args[0]), *me.args[1:])       # the object's thread takes its next wake-up and runs the step
        me.ended = True
      finally:
        me.inside = False
    n_after = len(log)
    if not me.ended:
      return FAIL("thread-alive-after-stop", "%s: the object's thread has not ended" % what)
    # no further run-to-completion step: the thread body, run again with its real flag, must do nothing
    try:
      me.target(*me.args)
    except fabric.WouldBlock:
      return FAIL("thread-would-run-on", "%s: after stop the thread body still waits for events" % what)
    if len(log) != n_after:
      return FAIL("dispatch-after-stop", "%s: dispatched %s after stop" % (what, log[n_after:]))
    if where == 1 and box.get("stopped_in_handler") != len(log):
      return FAIL("dispatch-after-stop:from-handler", "%s: steps %s ran after the step that called stop()" % (what, log[box.get("stopped_in_handler", 0):]))
    if where == 0 and pend > 1 and len(log) > 1:
      return FAIL("dispatch-after-stop", "%s: more than the step in flight ran: %s" % (what, log))
    timers = fabric.timer_threads()
    up = [i for i, t in enumerate(timers) if t.args[0].task_run_event.is_set()]
    if up:
      return FAIL("source-not-cancelled", "%s: after stop() %d of %d timed sources still have their run flag up (sources %s)" % (what, len(up), len(timers), up))
    if len(a.posted_events_queue) != 0:
      return FAIL("source-still-tracked", "%s: %d sources still tracked" % (what, len(a.posted_events_queue)))
    qlen = len(a.queue.deque)
    for t in timers:
      try:
        t.target(*t.args)            # a cancelled source's body must post nothing more
      except fabric.CutInfiniteSource:
        pass
    if len(a.queue.deque) != qlen:
      return FAIL("cancelled-source-posts", "%s: a timer body posted after stop()" % what)
    oth = [t for t in hosts.SimThread.registry if getattr(t.target, "__name__", "") == "run_event" and t.args and t.args[-1] is other.queue][0]
    if not oth.is_alive() or not other.activeobject_task_event.is_set():
      return FAIL("other-object-stopped", "%s: another active object was stopped too" % what)
    if not a.fabric.is_alive():
      return FAIL("fabric-stopped", "%s: the fabric was stopped too" % what)
  except Exception as ex:
    return FAIL("raised:" + type(ex).__name__, "%s: %r" % (what, ex))
  finally:
    ao.time = __import__("time")
  return PASS(nontrivial=ns > 0 or pend > 0)


Family(globals(), "h_stop_phases", params=[("ns", 0, 3), ("pend", 0, 3), ("hpost", 0, 2), ("where", 0, 1), ("deferred", 0, 1)], pre=pre, case=case, split=["where"], tiers=LIM)


def set_tier(tier):
  set_tier_all(globals(), tier)


def jobs(tier):
  return jobs_all(globals(), tier)


def specs(tier):
  out = []
  to = 900 if tier == "quick" else 3000
  for (kw, K) in scenarios(tier):
    if kw.get("handler_stop"):
      out.append(dict(scenario=SCN, kwargs=kw, kind="reach", K=K, pred="handler_stopped", timeout=to))
      out.append(dict(scenario=SCN, kwargs=kw, kind="safety", K=K, pred="handler_stop_bad", timeout=to, replay="stopping_replay"))
      out.append(dict(scenario=SCN, kwargs=kw, kind="deadlock", K=K, pred="consumer_alive_after_handler_stop", timeout=to, replay="stopping_replay"))
    else:
      out.append(dict(scenario=SCN, kwargs=kw, kind="reach", K=K + 8, pred="returned", timeout=to))
      out.append(dict(scenario=SCN, kwargs=kw, kind="safety", K=K, pred="stop_bad", timeout=to, replay="stopping_replay"))
      out.append(dict(scenario=SCN, kwargs=kw, kind="safety", K=K, pred="late_stale", timeout=to, replay="stopping_replay"))
      out.append(dict(scenario=SCN, kwargs=kw, kind="deadlock", K=K, pred="caller_open", timeout=to, replay="stopping_replay"))
  return out


def signature(spec, r):
  real = r["replay"]["real"]
  g = r.get("ghost") or {}
  tr = r["trace"]
  if spec["pred"] == "late_stale":
    return ("race:timer-check-then-post", "a timer thread that saw its run flag up before %s returned posts its event after the return (real run: caller returned at "
            "operation %s, timer insert at %s); schedule: %s" % (spec["kwargs"].get("action", "stop"), real["caller_returned_at_op"], real["timer_inserts_at_ops"], tr),
            real["timer_insert_after_return"])
  if spec["kind"] == "deadlock":
    who = "caller" if spec["pred"].startswith("caller") else "object thread"
    fin = real["finished_threads"]
    return ("blocked-for-ever:" + who.replace(" ", "-"), "%s never finishes; finished threads %s; schedule: %s" % (who, fin, tr), (0 if who == "caller" else 1) not in fin)
  if any("exc:" in t for t in tr[-1:]):
    return ("thread-crashed", "schedule: %s" % (tr,), True)
  if g.get("g.late_dispatch"):
    ok = real["dispatch_after_return"] or real["dispatch_after_handler_stop"]
    return ("dispatch-after-stop", "a run-to-completion step ran after stop (real dispatches %s, returned at %s); schedule: %s" % (real["dispatches"], real["caller_returned_at_op"], tr), ok)
  if g.get("g.late_fresh"):
    return ("timer-posts-after-stop:fresh-flag-check", "a timer thread looked at its run flag after the call had returned, found it up and posted; schedule: %s" % (tr,),
            real["timer_insert_after_return"])
  if real["caller_returned_at_op"] is not None and 1 not in real["finished_threads"] and not spec["kwargs"].get("handler_stop") and spec["pred"] == "stop_bad":
    return ("thread-alive-after-stop", "stop() returned, the object's thread has not ended; schedule: %s" % (tr,), True)
  up = [i for i, f in enumerate(real["source_flags_up"]) if f]
  return ("sources-wrong-after-return", "after the call returned: source run flags up %s, %d source(s) still tracked; schedule: %s" % (up, real["tracked"], tr),
          real["caller_returned_at_op"] is not None)


def solver_part(tier, known):
  from vf.e2 import harness, check
  FUNCTIONS[:] = propbase.functions_of(SCN, scenarios(tier)[0][0])
  n = 8 if tier == "quick" else 30
  out = propbase.run(specs(tier), known, signature, jobs=11, pred_signatures={"late_stale": "race:timer-check-then-post"},
                     differential=lambda: harness.stopping_differential(dict(action="stop", sources=1, times=2, pending=1), n, seed=13))
  # isolation: the translated stop() has no operation on another object's run flag or on the fabric's
  sc, sysm = check.build(SCN, scenarios(tier)[0][0])
  from vf.e2 import ir
  for n_ in sysm.programs[0].nodes:
    if isinstance(n_, ir.Op) and not isinstance(n_.target, tuple) and n_.target.name in ("other.task_event", "fabric_event") and n_.name not in sysm.READS:
      out["inconclusive"].append("stop() writes %s" % n_.target.name)
  return out
