"""C27 Thread-safe attributes lose no updates and never fail under concurrency (DESIGN 6/C27).  Engine E2."""
import itertools

from vf.e2 import propbase

PROP = "C27"
PART = {}
LEVEL = "model_checking"
CASES = {}
SCN = "tsa"
FUNCTIONS = []
ASSUMPTIONS = [
  "threads execute one statement each on the same attribute of the same instance: `v = o.x` (one __get__), `o.x = c` (one __set__), `o.x += c` (__get__, then "
  "__set__ of the sum) - the descriptor calls CPython makes; the real ThreadSafeAttribute.__get__/__set__/_get_value/_set_value are translated from /repo's "
  "source on this run",
  "frame inspection (inspect.currentframe().f_back, getframeinfo, FrameData(...).lines[0]) is replaced by the text of the statement the thread executes - the "
  "real source line of the function the replay runs (vf/e2/tsa_statements.py); is_not_atomic / request_for_lock are evaluated by calling the real methods "
  "on that text at translation time",
  "shared state: every attribute of the descriptor that __get__/__set__ assign (found by scanning their AST) is a shared attribute with one step per load and "
  "per store; its locks are RLock models; the value store (instance.__dict__) is a dict model; threading.get_ident() is the modelled thread's number",
  "one BMC query per combination of statement kinds (the kinds are enumerated, the interleaving is symbolic)",
]
OUTSIDE = ["more than 3 threads, more than one statement per thread", "statements whose text the real classification methods read differently (C28's subject)",
           "the documented '_, _lock = o.x' form"]
EXPLANATION = ("Bounded model checking (QF_BV) of the translated descriptor protocol under every interleaving: no thread crashes, none is blocked for ever, "
               "no lock stays held once every statement has finished, and the final value is that of some serial order of the same statements; the adequacy "
               "query shows K covers every behaviour. Counterexample schedules are replayed on the real descriptor with real threads.")
RULE = "one evaluation = one BMC query (all interleavings of one combination of statement kinds)"
KINDS = ["read", "assign", "aug"]


def bound_for(c, **kw):
  """the statements are loop-free: every operation runs at most once, so the number of operations of the translated programs (+ 2) covers
  every behaviour (the adequacy query confirms it); computed from the code as it is now, never below the 13 steps per thread used so far"""
  from vf.e2 import check, ir
  try:
    _sc, sysm = check.build(SCN, dict(kinds=tuple(c), **kw))
    nops = sum(1 for p in sysm.programs for n in p.nodes if isinstance(n, ir.Op) and (p.tid, n.id) not in sysm.invisible)      # steps are taken at visible operations
  except Exception:
    nops = 0          # a translation error is reported by the queries themselves
  return max(13 * len(c), min(nops + 2 * len(c) + 2, 30 * len(c)))


def combos(tier):
  two = [c for c in itertools.combinations_with_replacement(KINDS, 2) if c != ("read", "read")]
  three = [("aug", "aug", "aug"), ("assign", "aug", "aug"), ("read", "aug", "aug")]
  if tier == "thorough":
    three = [c for c in itertools.combinations_with_replacement(KINDS, 3) if c.count("read") < 2]
  return [(c, bound_for(c)) for c in two] + [(c, bound_for(c)) for c in three]


def bounds(tier):
  return {"combinations": [{"kinds": list(c), "K": k} for c, k in combos(tier)], "meaning": "kinds of the statements of threads 0..n-1; K = unrolling depth"}


def jobs(tier):
  return []


def specs(tier):
  out = []
  to = 600 if tier == "quick" else 1800
  for (c, K) in combos(tier):
    kw = dict(kinds=tuple(c))
    out.append(dict(scenario=SCN, kwargs=kw, kind="reach", K=K, pred="all_done", timeout=to))
    out.append(dict(scenario=SCN, kwargs=kw, kind="safety", K=K, pred="tsa_any_bad", timeout=to, replay="tsa_replay"))
    out.append(dict(scenario=SCN, kwargs=kw, kind="deadlock", K=K, pred="someone_open", timeout=to, replay="tsa_replay"))
    out.append(dict(scenario=SCN, kwargs=kw, kind="adequacy", K=K, timeout=to))
  # threads that carry the same name (legal; an active object's thread is named after its chart): the attribute must tell them apart anyway
  for c in ([("aug", "assign")] if tier == "quick" else [("aug", "assign"), ("aug", "aug"), ("assign", "aug", "aug")]):
    kw = dict(kinds=tuple(c), same_names=True)
    K = bound_for(c, same_names=True)
    out.append(dict(scenario=SCN, kwargs=kw, kind="safety", K=K, pred="tsa_any_bad", timeout=to, replay="tsa_replay"))
    out.append(dict(scenario=SCN, kwargs=kw, kind="deadlock", K=K, pred="someone_open", timeout=to, replay="tsa_replay"))
  return out


def signature(spec, r):
  real = r["replay"]["real"]
  kinds = "+".join(spec["kwargs"]["kinds"])
  if spec["kind"] == "deadlock":
    n = len(spec["kwargs"]["kinds"])
    return ("blocked-for-ever:" + kinds, "threads finished %s of %d; %s; schedule: %s" % (real["finished"], n, real, r["trace"]), len(real["finished"]) < n)
  if real["errors"]:
    err = sorted(set(v.split(":")[0] for v in real["errors"].values()))
    return ("raised:%s:%s" % ("+".join(err), kinds), "statements %s on the real descriptor: %s; schedule: %s" % (kinds, real["errors"], r["trace"]), True)
  from vf.e2.preds import tsa_serial_values
  ok_values = tsa_serial_values(spec["kwargs"]["kinds"])
  if real["value"] not in ok_values:
    return ("lost-update:" + kinds, "final value %s on the real object; serial orders give %s; schedule: %s" % (real["value"], ok_values, r["trace"]), True)
  held = [k for k, free in real["lock_acquirable_by_another_thread"].items() if not free]
  return ("lock-left-held:" + kinds, "all statements finished, lock(s) %s still held; schedule: %s" % (held, r["trace"]), bool(held))


def solver_part(tier, known):
  from vf.e2 import harness
  FUNCTIONS[:] = propbase.functions_of(SCN, dict(kinds=("aug", "assign")))
  n = 10 if tier == "quick" else 40
  out = propbase.run(specs(tier), known, signature, differential=lambda: harness.tsa_differential(("aug", "assign", "read"), n, seed=11), jobs=12)
  for q in out["coverage"]["bmc_queries"]:
    if q["kind"] == "adequacy" and q["result"] == "sat":
      out["inconclusive"].append("K=%s does not cover every behaviour of %s (adequacy query sat)" % (q["K"], q["kwargs"]))
  return out
