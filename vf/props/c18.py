"""C18 Instrumentation never changes chart behaviour (DESIGN 6/C18)."""
from vf.core import PASS, FAIL
from vf.family import Family, set_tier_all, jobs_all
from vf import hosted, hosts

PROP = "C18"
PART = {}
FUNCTIONS = ["miros.hsm.spy_on", "miros.hsm.spy_on_start", "miros.hsm.trace_on_start", "miros.hsm.HsmEventProcessor.start_at/init/dispatch/trans_",
             "miros.hsm.InstrumentedHsmEventProcessor.start_at/dispatch (+append_to_full_spy, append_to_full_trace)",
             "miros.hsm.HsmWithQueues.start_at/dispatch/post_fifo/next_rtc (+live print wrappers)",
             "miros.activeobject.ActiveObject.__init__/start_at/__start/post_fifo"]
ASSUMPTIONS = [
  "threading.Thread replaced by a recording stand-in for ActiveObject hosts (threads never run by themselves); events are dispatched with next_rtc directly",
  "live spy/trace callbacks collect lines instead of printing",
  "all states of a chart are decorated or none is (mixed decoration is not a documented configuration)",
]
OUTSIDE = ["charts larger than N", "mixed decoration", "more than one initial-transition hop below the target"]
EXPLANATION = ("Bounded symbolic execution (CrossHair/z3) of start_at and one step on every host class x decoration x live-output flags, on the "
               "Y-with-tail chart family. Oracle: the handler-side action log (offers, exits, entries, inits) and the resting state after "
               "start_at and after the step equal the UML oracle computed from the chart tables - i.e. they are identical in every configuration.")
RULE = "one case per (chart tuple, host, decoration, live flags); non-trivial = the step takes a transition with at least one exit or entry"
LIM = {"quick": dict(N=4), "thorough": dict(N=6)}


def bounds(tier):
  d = dict(LIM[tier]); d["meaning"] = "N = max states l+a+b+j1; hosts=%s; deco 0/1; live_spy x live_trace on queued hosts" % hosts.HOSTS
  return d


def pre(v, lim):
  if v["l"] + v["a"] + v["b"] + v["j1"] > lim["N"]:
    return False
  if not (v["k"] < v["l"] + v["a"] and v["tsel"] < v["l"] + v["a"] + v["b"]):
    return False
  if v["host"] < 2 and v["live"] != 0:
    return False
  return True


def case(l, a, b, k, tsel, j1, pm, host, deco, live):
  ls, lt = live & 1, (live >> 1) & 1
  what = "host=%s deco=%d live_spy=%d live_trace=%d" % (hosts.HOSTS[host], deco, ls, lt)
  try:
    ch, c, o1, o2 = hosted.run(l, a, b, k, tsel, j1, pm, host, deco, ls, lt)
  except Exception as ex:
    return FAIL("raised:%s:%s:deco%d" % (hosts.HOSTS[host].split("(")[0] + ("-unnamed" if host == 5 else ""), type(ex).__name__, deco), "%s: %r" % (what, ex))
  exp1, rest1 = ch.oracle_start(ch.cur)
  if o1.log != exp1:
    return FAIL("start-actions-differ", "%s: log %s expected %s" % (what, o1.log, exp1))
  if o1.state_fun is not ch.hs[rest1]:
    return FAIL("start-resting-state", "%s: %s" % (what, o1.state_name))
  exp2, rest2, kind = ch.oracle_dispatch(rest1)
  if o2.log != exp2:
    return FAIL("step-actions-differ", "%s: log %s expected %s" % (what, o2.log, exp2))
  if o2.state_fun is not ch.hs[rest2]:
    return FAIL("step-resting-state", "%s: %s" % (what, o2.state_name))
  return PASS(nontrivial=any(x[0] in ("ex", "en") for x in exp2))


Family(globals(), "h_hosts", params=[("l", 0, 2), ("a", 1, 3), ("b", 0, 3), ("k", 0, 4), ("tsel", 0, 7), ("j1", 0, 3), ("pm", 0, 1),
                                     ("host", 0, 5), ("deco", 0, 1), ("live", 0, 3)],
       pre=pre, case=case, split=["host", "deco", "live"], tiers=LIM)


def set_tier(tier):
  set_tier_all(globals(), tier)


def jobs(tier):
  return jobs_all(globals(), tier)
