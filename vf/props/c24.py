"""C24 Impossible initial transitions raise instead of hanging (DESIGN 6/C24)."""
from vf.core import PASS, FAIL, HarnessAbort
from vf.family import Family, set_tier_all, jobs_all
from vf import charts

PROP = "C24"
PART = {}
FUNCTIONS = ["miros.hsm.HsmEventProcessor.start_at", "miros.hsm.HsmEventProcessor.init", "miros.hsm.HsmEventProcessor.dispatch",
             "miros.hsm.HsmEventProcessor.trans_"]
ASSUMPTIONS = ["hang detection: the host's top() and every generated handler count calls; more than 400 calls inside one API call is "
               "the verdict 'loops instead of raising' (a well-formed chart of this size needs < 60)",
               "exactly one malformation per chart; every other state is well formed"]
OUTSIDE = ["chains deeper than the bound", "two or more malformations in one chart"]
EXPLANATION = ("Bounded symbolic execution (CrossHair/z3) of the real start_at/init/dispatch on a chain chart with one malformation: the "
               "initial transition of state X targets X itself, its parent, a sibling or a state of another branch, or X returns None "
               "for the offered event / for every event; X is reached by start_at directly, through a healthy initial transition, by a "
               "transition from a healthy state, or (None kinds) is offered the event as the current state. Oracle: HsmTopologyException "
               "is raised, without a hang, and no state outside the path to X was entered before it.")
RULE = "one case per (depth of X, malformation kind, route, implicit-action mask); all are non-trivial"
LIM = {"quick": dict(D=4, hxs=(0,), ZD=6), "thorough": dict(D=6, hxs=(0, 7), ZD=10)}
KINDS = ["init-to-self", "init-to-parent", "init-to-sibling", "init-to-other-branch", "none-for-event", "none-for-all"]
ROUTES = ["start_at-D", "start_at-ancestor-init-into-D", "transition-into-D", "event-offered-to-D", "transition-into-ancestor-whose-init-targets-D"]
DESTS = ["X", "child-of-X"]


def bounds(tier):
  d = dict(LIM[tier])
  d["meaning"] = ("D = max depth of the faulty state X; kinds=%s; routes=%s; destination D = %s; deep = the current state is a child of the "
                  "transition's source state; ZD = extra nesting of the wrong target of an init-to-other-branch (its depth is 2 + zd); nm = an ancestor of that "
                  "wrong target is a different function with the same __name__ as X" % (KINDS, ROUTES, DESTS))
  return d


def pre(v, lim):
  d, kind, route, dest, deep = v["d"], v["kind"], v["route"], v["dest"], v["deep"]
  if d > lim["D"]:
    return False
  if v["hx"] not in lim["hxs"]:
    return False
  if kind == 1 and d < 2:
    return False          # needs a parent
  if route in (1, 4) and d < 2:
    return False          # needs an ancestor
  if kind < 4 and dest == 1:
    return False          # X's initial transition is only taken when X itself is the destination
  if kind == 4 and route != 3:
    return False          # 'None for the offered event' only shows when the event is offered (bubbles) to X
  if kind < 4 and route == 3:
    return False          # offering an event to X does not take X's initial transition
  if deep and route not in (2, 4):
    return False          # only transitions have a source state
  if v["zd"] > lim["ZD"] or (v["zd"] and (kind != 3 or v["hx"] != 0 or d > 2)):
    return False          # a deeply nested wrong target: only for 'init-to-other-branch', with a shallow X
  if v["nm"] and kind != 3:
    return False          # an ancestor of the wrong target that is called like X: only where the wrong target has ancestors of its own
  return True


def case(d, kind, route, dest, deep, hx, zd=0, nm=0):
  from miros.hsm import HsmEventProcessor, HsmTopologyException

  # chain 0..d-1, X = d-1; C child of X; Y sibling of X; Z, Z2 another branch; H a healthy root state, H2 its child
  parent = [i - 1 for i in range(d)]
  X = d - 1
  parent.append(X); C = len(parent) - 1
  parent.append(parent[X]); Y = len(parent) - 1
  parent.append(-1); Z = len(parent) - 1
  parent.append(Z); Z2 = len(parent) - 1
  for _ in range(zd):            # the wrong target sits zd levels further down its own branch
    parent.append(Z2); Z2 = len(parent) - 1
  parent.append(-1); H = len(parent) - 1
  parent.append(H); H2 = len(parent) - 1
  n = len(parent)
  init = [-1] * n
  react = [charts.R_PASS] * n
  none_for = {}
  D = X if dest == 0 else C
  if kind == 0:
    init[X] = X
  elif kind == 1:
    init[X] = parent[X]
  elif kind == 2:
    init[X] = Y
  elif kind == 3:
    init[X] = Z2
  elif kind == 4:
    none_for[X] = ("user",)
  else:
    none_for[X] = ("all",)
  if route in (1, 4):
    init[0] = D
  if route == 2:
    react[H] = D
  if route == 4:
    react[H] = 0
  names = ["s%d" % i for i in range(n)]
  if nm:
    names[Z] = names[X]          # two different state functions with the same __name__ (components built by one factory)
  ch = charts.Chart(parent, react, init, hx=hx, none_for=none_for, call_limit=400, names=names)

  class CountingHost(HsmEventProcessor):
    def top(self, *args):
      ch.ncalls += 1
      if ch.ncalls > ch.call_limit:
        raise HarnessAbort("call limit")
      return super().top(*args)

  c = CountingHost()
  allowed = set(charts.anc(parent, D))
  if route >= 2:
    cur = D if route == 3 else (H2 if deep else H)
    c.state.fun = ch.hs[cur]
    c.temp.fun = ch.hs[cur]
  what = "%s via %s, destination %s, depth of X %d%s%s%s" % (KINDS[kind], ROUTES[route], DESTS[dest], d, ", current state below the source" if deep else "",
                                                        ", wrong target %d levels deep" % (2 + zd) if zd else "", ", an ancestor of the wrong target is named like X" if nm else "")
  rname = "start" if route < 2 else "dispatch"
  try:
    if route == 0:
      c.start_at(ch.hs[D])
    elif route == 1:
      c.start_at(ch.hs[0])
    else:
      c.dispatch(ch.Event(signal=ch.SIG))
  except HsmTopologyException:
    entered = [x[1] for x in ch.log if x[0] == "en"]
    wrong = [x for x in entered if x not in allowed]
    if wrong:
      return FAIL("wrong-state-entered:" + KINDS[kind], "%s: entered %s before raising" % (what, wrong))
    return PASS()
  except HarnessAbort:
    return FAIL("hang:%s:%s" % (KINDS[kind], rname), "%s: more than 400 handler/top calls, log tail %s" % (what, ch.log[-6:]))
  except Exception as ex:
    return FAIL("other-exception:%s:%s:%s" % (KINDS[kind], rname, type(ex).__name__), "%s: %r" % (what, ex))
  return FAIL("no-exception:%s:%s:%s" % (KINDS[kind], ROUTES[route], DESTS[dest]) + (":deep" if deep else ""), "%s: returned normally, log %s" % (what, ch.log))


Family(globals(), "h_malformed", params=[("d", 1, 6), ("kind", 0, 5), ("route", 0, 4), ("dest", 0, 1), ("deep", 0, 1), ("hx", 0, 7), ("zd", 0, 10), ("nm", 0, 1)],
       pre=pre, case=case, split=["hx"], tiers=LIM)


def set_tier(tier):
  set_tier_all(globals(), tier)


def jobs(tier):
  return jobs_all(globals(), tier)
