"""C09 lifo subscriptions put events at the front of an active object's queue (DESIGN 6/C09)."""
from vf.core import PASS, FAIL
from vf.family import Family, set_tier_all, jobs_all
from vf import fabric

PROP = "C09"
PART = {}
FUNCTIONS = ["miros.activeobject.ActiveObject.subscribe/_subscribe", "miros.activeobject.ActiveObject.publish/_publish",
             "miros.activeobject.ActiveObject.start_at/__start", "miros.activeobject.ActiveFabricSource.subscribe/publish/start",
             "miros.activeobject.ActiveFabricSource.thread_runner_fifo/thread_runner_lifo", "miros.activeobject.LockingDeque.append/appendleft"]
ASSUMPTIONS = [
  "E2 part: a caller runs the real ActiveObject.subscribe (run-time path: __thread_running, subscribed, _subscribe -> fabric.subscribe), post_fifo and "
  "publish on a started object; the delivery thread of the subscription's kind runs the real thread_runner (for lifo: LockingDeque.appendleft on the object's "
  "queue), the object's own thread runs run_event -> next_rtc with a dispatch stub; all translated from /repo's source on this run; ghost reference deque as in C04","threads are recorded stand-ins; the real delivery bodies are pumped after the publication (phase interleaving)",
               "the subscriber is a started ActiveObject with decorated states and np pending events (distinct tokens) in its queue",
               "capacity large enough that nothing overflows (overflow is C16)"]
OUTSIDE = ["plain deques subscribed directly with the fabric (the suite pins back-placement for them)", "interleavings inside a delivery iteration"]
EXPLANATION = ("Bounded symbolic execution (CrossHair/z3) of subscribe(kind) + publish + delivery on a started active object with a symbolic "
               "number of pending events, subscription made before or after start_at. Oracle: after delivery the published event is at index 0 of the "
               "object's queue for a lifo subscription and at the last index for fifo; the pending events keep their order.")
RULE = "one case per (pending events, kind, when subscribed, second publication); non-trivial = at least one pending event"
LIM = {"quick": dict(NP=3), "thorough": dict(NP=5)}


def bounds(tier):
  d = dict(LIM[tier]); d["meaning"] = "NP = max pending events; kind 0 fifo/1 lifo; when 0 subscribe before start_at/1 after; two 0/1 a second publication follows; plain 0/1/2 a plain deque subscribes to the same signal and kind before / after the object"
  return d


def pre(v, lim):
  return v["np"] <= lim["NP"]


def case(np_, kind, when, two, plain=0):
  hsm, ao = fabric.install()
  from miros.event import Event, signals, return_status
  K = "lifo" if kind else "fifo"
  a = ao.ActiveObject(name="sub")

  @hsm.spy_on
  def only(chart, e):
    if e.signal in (signals.ENTRY_SIGNAL, signals.INIT_SIGNAL, signals.EXIT_SIGNAL):
      return return_status.HANDLED
    chart.temp.fun = chart.top
    return return_status.SUPER

  ev = Event(signal="NEWS")
  # another subscriber of the same signal and kind: a plain deque registered directly with the fabric, before (1) or after (2) the object
  from collections import deque as _deque
  other = _deque(["old"], maxlen=10)
  if plain == 1:
    a.fabric.subscribe(other, ev, K)
  if when == 0:
    a.subscribe(ev, queue_type=K)
  a.start_at(only)
  if when == 0:
    a.next_rtc()            # the object's thread would handle the subscription request it posted to itself
  else:
    a.subscribe(ev, queue_type=K)
  if plain == 2:
    a.fabric.subscribe(other, ev, K)
  what = "np=%d kind=%s subscribed %s start%s" % (np_, K, "after" if when else "before", ["", ", a plain deque subscribed before it", ", a plain deque subscribed after it"][plain])
  table = a.fabric.lifo_subscriptions if kind else a.fabric.fifo_subscriptions
  if not any(q is a.queue for q in table.get("NEWS", [])):
    return FAIL("not-subscribed", what)
  pend = [Event(signal="P%d" % i) for i in range(np_)]
  for p in pend:
    a.post_fifo(p)
  pubs = [Event(signal="NEWS", payload=1)] + ([Event(signal="NEWS", payload=2)] if two else [])
  want = list(pend)
  for p in pubs:
    a.publish(p)
    fabric.pump_fabric()
    if kind:
      want.insert(0, p)
    else:
      want.append(p)
  now = list(a.queue.deque)
  if len(now) != len(want) or any(x is not y for x, y in zip(now, want)):
    names = lambda l: ["%s%s" % (e.signal_name, "" if e.payload is None else ":%s" % e.payload) for e in l]
    if kind and now and now[0] is not pubs[-1]:
      return FAIL("lifo-subscription-appends-at-back", "%s: queue %s expected %s" % (what, names(now), names(want)))
    if not kind and now and now[-1] is not pubs[-1]:
      return FAIL("fifo-subscription-not-at-back", "%s: queue %s expected %s" % (what, names(now), names(want)))
    return FAIL("queue-content", "%s: queue %s expected %s" % (what, names(now), names(want)))
  if plain:
    # a plain deque subscriber receives every publication once, at its back (test_subscribe_lilo pins that for lifo as well)
    got = list(other)
    if got[0] != "old" or len(got) != 1 + len(pubs) or any(x is not y for x, y in zip(got[1:], pubs)):
      return FAIL("plain-deque-subscriber-content", "%s: the plain deque holds %r" % (what, got))
  return PASS(nontrivial=np_ > 0)


Family(globals(), "h_lifo_sub", params=[("np", 0, 5), ("kind", 0, 1), ("when", 0, 1), ("two", 0, 1), ("plain", 0, 2)],
       pre=pre, case=case, split=[], tiers=LIM)


def set_tier(tier):
  set_tier_all(globals(), tier)


def jobs(tier):
  return jobs_all(globals(), tier)

def e2_scenarios(tier):
  lifo = dict(kind="lifo", pending=1)
  fifo = dict(kind="fifo", pending=1)
  # a post made after the publish races with the delivery of the publication (the object's queue may be empty when it arrives)
  after = dict(kind="lifo", pending=0, post_after=1)
  if tier == "quick":
    return [(lifo, 30), (after, 30)]
  return [(lifo, 40), (fifo, 40), (dict(kind="lifo", pending=2), 36), (after, 40), (dict(kind="lifo", pending=1, post_after=1), 36)]


DIFF_KW = dict(kind="lifo", pending=1)


# ---- E2 part: the object's run-time subscribe, posts and publish against the delivery thread and its own thread, every interleaving -------
def e2_specs(tier):
  out = []
  to = 900 if tier == "quick" else 3000
  for (kw, K) in e2_scenarios(tier):
    out.append(dict(scenario="ao_pubsub", kwargs=kw, kind="reach", K=K + 10, pred="all_dispatched", timeout=to))
    out.append(dict(scenario="ao_pubsub", kwargs=kw, kind="safety", K=K, pred="c04_bad", timeout=to, replay="ao_pubsub_replay"))
    out.append(dict(scenario="ao_pubsub", kwargs=kw, kind="deadlock", K=K, pred="quiescent_wrong", timeout=to, replay="ao_pubsub_replay"))
  return out


def e2_signature(spec, r):
  real = r["replay"]["real"]
  kw = spec["kwargs"]
  if real["errors"]:
    return ("pubsub-raised", "%s; schedule: %s" % (real["errors"], r["trace"]), True)
  log = real["dispatch_log"]
  if spec["kind"] == "deadlock":
    want = 1 + kw["pending"] + kw.get("post_after", 0)
    return ("publication-not-dispatched-once:interleaving", "everybody idle: the object dispatched %s (a %s subscription made at run time, %d pending event(s)), queue %s, tokens %d; schedule: %s" % (
      log, kw["kind"], kw["pending"], real["deque"], real["tokens"], r["trace"]), log.count("NEWS") != 1 or len(log) != want)
  if len(set(log)) < len(log):
    return ("publication-dispatched-twice:interleaving", "dispatch log %s; schedule: %s" % (log, r["trace"]), True)
  return ("%s-subscription-wrong-end-of-queue:interleaving" % kw["kind"], "the object dispatched %s; a %s subscription puts the publication at the %s of its queue; schedule: %s" % (
    log, kw["kind"], "front" if kw["kind"] == "lifo" else "back", r["trace"]), True)


def solver_part(tier, known):
  from vf.e2 import propbase, harness
  FUNCTIONS.extend(x for x in propbase.functions_of("ao_pubsub", e2_scenarios(tier)[0][0]) if x not in FUNCTIONS)
  n = 5 if tier == "quick" else 20
  out = propbase.run(e2_specs(tier), known, e2_signature, jobs=8,
                     differential=lambda: harness.ao_pubsub_differential(DIFF_KW, n, seed=43))
  out["coverage"]["e2_bounds"] = [{"kwargs": k, "K": K} for k, K in e2_scenarios(tier)]
  return out
