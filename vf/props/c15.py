"""C15 defer holds events back until recall, oldest first (DESIGN 6/C15)."""
from vf.core import PASS, FAIL
from vf.family import Family, set_tier_all, jobs_all
from vf import queued

PROP = "C15"
PART = {}
FUNCTIONS = ["miros.hsm.HsmWithQueues.defer", "miros.hsm.HsmWithQueues.recall", "miros.hsm.HsmWithQueues.post_fifo",
             "miros.hsm.HsmWithQueues.next_rtc", "miros.hsm.HsmWithQueues.complete_circuit", "the append_defer_to_spy/append_recall_to_spy wrappers",
             "miros.activeobject.ActiveObject (un-started) with LockingDeque as pending queue"]
ASSUMPTIONS = [
  "inductive step: pre-state = arbitrary numbers of pending and deferred events built through the real API, then two operations; "
  "contents are distinct concrete tokens",
  "capacity 8 (no overflow; C16)", "ActiveObject host is not started", "handler scripts (posts, defer of the current event, recall) act on the first dispatch only",
]
OUTSIDE = ["more than two consecutive operations per case (induction on the two queue states)", "overflow (C16)", "threads (C04)"]
EXPLANATION = ("Bounded symbolic execution (CrossHair/z3) of the real defer/recall API from a symbolic pre-state (pending and deferred "
               "lengths), two symbolic operations from {post_fifo, post_lifo, next_rtc, complete_circuit, defer, recall}, and a symbolic "
               "handler script of 0-2 actions from {post_fifo, post_lifo, defer current event, recall}. Oracle: two deques; recall returns "
               "the oldest deferred event and appends it at the back of the pending queue, returns None and posts nothing when nothing is "
               "deferred; a deferred event is never dispatched while deferred; deferral order is kept.")
RULE = ("one case per (host, decoration, instrumented, pending length, deferred length, op1, op2, script) in which defer or recall occurs "
        "or something is deferred; non-trivial = a deferral or recall actually moved an event")
LIM = {"quick": dict(NP=1, ND=2, SL=1), "thorough": dict(NP=2, ND=3, SL=2)}


def bounds(tier):
  d = dict(LIM[tier]); d["meaning"] = "NP/ND = max pending/deferred events in the pre-state; SL = max handler script length; 6 ops x (none or one more)"
  return d


def _involves(nd, o1, o2, script):
  s = queued.SCRIPTS[script]
  return nd > 0 or o1 in (4, 5) or o2 in (4, 5) or any(a in (2, 3) for a in s)


def pre(v, lim):
  if v["np"] > lim["NP"] or v["nd"] > lim["ND"]:
    return False
  if lim["SL"] < 2 and v["script"] > 4:
    return False
  return True


def case(host, deco, instr, np_, nd, op1, op2, script):
  o1 = op1
  o2 = op2 - 1
  if not _involves(nd, o1, o2, script):
    return PASS(nontrivial=False, tags=("no-deferral-involved",))
  try:
    qc, m, rr, rm = queued.run_pair(host, deco, instr, np_, nd, o1, o2, script)
  except Exception as ex:
    return FAIL("raised:" + type(ex).__name__, repr(ex))
  what = "host=%d deco=%d instr=%d np=%d nd=%d ops=%s,%s script=%s" % (host, deco, instr, np_, nd, queued.OPS[o1], queued.OPS[o2] if o2 >= 0 else "-", queued.SCRIPTS[script])
  if queued.NBQueue.blocked:
    return FAIL("would-block", what)
  if rr != rm:
    return FAIL("recall-return", "%s: results %s expected %s" % (what, rr, rm))
  if qc.recalled != m.recalled:
    return FAIL("recall-return-in-handler", "%s: handler recalls returned %s expected %s" % (what, qc.recalled, m.recalled))
  if qc.deferred() != list(m.deferred):
    return FAIL("deferred-queue", "%s: deferred %s expected %s" % (what, qc.deferred(), list(m.deferred)))
  if qc.pending() != list(m.pending):
    return FAIL("pending-after-recall", "%s: pending %s expected %s" % (what, qc.pending(), list(m.pending)))
  if qc.log != m.log:
    return FAIL("dispatch-of-deferred", "%s: dispatched %s expected %s" % (what, qc.log, m.log))
  moved = any(r is not None and not isinstance(r, tuple) for r in rm) or any(r is not None for r in m.recalled) or len(m.deferred) != nd
  return PASS(nontrivial=bool(moved))


Family(globals(), "h_defer", params=[("host", 0, 1), ("deco", 0, 1), ("instr", 0, 1), ("np", 0, 2), ("nd", 0, 3), ("op1", 0, 5), ("op2", 0, 6), ("script", 0, 20)],
       pre=pre, case=case, split=["host", "deco", "instr", "op1"], tiers=LIM)


def set_tier(tier):
  set_tier_all(globals(), tier)


def jobs(tier):
  return jobs_all(globals(), tier)
