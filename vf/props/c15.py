"""C15 defer holds events back until recall, oldest first (DESIGN 6/C15)."""
from vf.core import PASS, FAIL
from vf.family import Family, set_tier_all, jobs_all
from vf import queued

PROP = "C15"
PART = {}
FUNCTIONS = ["miros.hsm.HsmWithQueues.defer", "miros.hsm.HsmWithQueues.recall", "miros.hsm.HsmWithQueues.post_fifo",
             "miros.hsm.HsmWithQueues.next_rtc", "miros.hsm.HsmWithQueues.complete_circuit", "the append_defer_to_spy/append_recall_to_spy wrappers",
             "miros.activeobject.ActiveObject (un-started) with LockingDeque as pending queue"]
ASSUMPTIONS = [
  "inductive step: pre-state = arbitrary numbers of pending and deferred events built through the real API, then two operations; "
  "contents are distinct concrete tokens",
  "capacity 8 (no overflow; C16)", "h_capacity: capacity 3, up to 3 deferrals (a full defer queue) and up to 3 pending events (a full pending queue) when recall is "
  "called: asserted are recall's return value, the recalled event at the back of the queue and the remaining deferrals - what a full pending queue drops at its front is C16's", "ActiveObject host is not started", "handler scripts (posts, defer of the current event, recall) act on the first dispatch only",
]
OUTSIDE = ["more than two consecutive operations per case (induction on the two queue states)", "overflow (C16)", "threads (C04)"]
EXPLANATION = ("Bounded symbolic execution (CrossHair/z3) of the real defer/recall API from a symbolic pre-state (pending and deferred "
               "lengths), two symbolic operations from {post_fifo, post_lifo, next_rtc, complete_circuit, defer, recall}, and a symbolic "
               "handler script of 0-2 actions from {post_fifo, post_lifo, defer current event, recall}. Oracle: two deques; recall returns "
               "the oldest deferred event and appends it at the back of the pending queue, returns None and posts nothing when nothing is "
               "deferred; a deferred event is never dispatched while deferred; deferral order is kept.")
RULE = ("one case per (host, decoration, instrumented, pending length, deferred length, op1, op2, script) in which defer or recall occurs "
        "or something is deferred; non-trivial = a deferral or recall actually moved an event")
LIM = {"quick": dict(NP=1, ND=2, SL=1), "thorough": dict(NP=2, ND=3, SL=2)}


def bounds(tier):
  d = dict(LIM[tier]); d["meaning"] = "NP/ND = max pending/deferred events in the pre-state; SL = max handler script length; 6 ops x (none or one more)"
  return d


def _involves(nd, o1, o2, script):
  s = queued.SCRIPTS[script]
  return nd > 0 or o1 in (4, 5) or o2 in (4, 5) or any(a in (2, 3) for a in s)


def pre(v, lim):
  if v["np"] > lim["NP"] or v["nd"] > lim["ND"]:
    return False
  if lim["SL"] < 2 and v["script"] > 4:
    return False
  return True


def case(host, deco, instr, np_, nd, op1, op2, script):
  o1 = op1
  o2 = op2 - 1
  if not _involves(nd, o1, o2, script):
    return PASS(nontrivial=False, tags=("no-deferral-involved",))
  try:
    qc, m, rr, rm = queued.run_pair(host, deco, instr, np_, nd, o1, o2, script)
  except Exception as ex:
    return FAIL("raised:" + type(ex).__name__, repr(ex))
  what = "host=%d deco=%d instr=%d np=%d nd=%d ops=%s,%s script=%s" % (host, deco, instr, np_, nd, queued.OPS[o1], queued.OPS[o2] if o2 >= 0 else "-", queued.SCRIPTS[script])
  if queued.NBQueue.blocked:
    return FAIL("would-block", what)
  if rr != rm:
    return FAIL("recall-return", "%s: results %s expected %s" % (what, rr, rm))
  if qc.recalled != m.recalled:
    return FAIL("recall-return-in-handler", "%s: handler recalls returned %s expected %s" % (what, qc.recalled, m.recalled))
  if qc.deferred() != list(m.deferred):
    return FAIL("deferred-queue", "%s: deferred %s expected %s" % (what, qc.deferred(), list(m.deferred)))
  if qc.pending() != list(m.pending):
    return FAIL("pending-after-recall", "%s: pending %s expected %s" % (what, qc.pending(), list(m.pending)))
  if qc.log != m.log:
    return FAIL("dispatch-of-deferred", "%s: dispatched %s expected %s" % (what, qc.log, m.log))
  moved = any(r is not None and not isinstance(r, tuple) for r in rm) or any(r is not None for r in m.recalled) or len(m.deferred) != nd
  return PASS(nontrivial=bool(moved))


Family(globals(), "h_defer", params=[("host", 0, 1), ("deco", 0, 1), ("instr", 0, 1), ("np", 0, 2), ("nd", 0, 3), ("op1", 0, 5), ("op2", 0, 6), ("script", 0, 20)],
       pre=pre, case=case, split=["host", "deco", "instr", "op1"], tiers=LIM)


# ---- at the capacity of the two queues (capacity 3): a full defer queue holds every deferral; recall into a full pending queue ---------------
CAP = 3


def case_capacity(host, deco, nd, npend):
  """the handler defers each of the first nd events it is given (nd up to the capacity); then npend events are posted (up to the capacity:
  the pending queue may be full) and nothing is dispatched; then recall() is called nd + 1 times"""
  import miros.hsm as hsm
  chart = queued.make_host(host, 0, CAP)
  import miros.event as ev
  log = []
  todo = [nd]

  def only(c, e):
    sg = ev.signals
    if e.signal in (sg.ENTRY_SIGNAL, sg.INIT_SIGNAL, sg.EXIT_SIGNAL):
      return ev.return_status.HANDLED
    if e.signal_name.startswith("T_"):
      if todo[0] > 0:
        todo[0] -= 1
        c.defer(e)
      else:
        log.append(e.signal_name)
      return ev.return_status.HANDLED
    c.temp.fun = c.top
    return ev.return_status.SUPER
  only.__name__ = "only"
  hsm.HsmWithQueues.start_at(chart, hsm.spy_on(only) if deco else only)
  what = "host=%d deco=%d capacity=%d: %d events deferred one after the other, then %d posted, then %d recalls" % (host, deco, CAP, nd, npend, nd + 1)

  def pending():
    q = chart.queue
    return [e.signal_name for e in (q.deque if hasattr(q, "deque") else q)]
  try:
    work = []
    for i in range(nd):
      e = ev.Event(signal="T_W%d" % i)
      work.append(e.signal_name)
      chart.post_fifo(e)
      chart.next_rtc()
    held = [e.signal_name for e in chart.defer_queue]
    if held != work:
      return FAIL("deferred-queue:at-capacity", "%s: deferred %s expected %s" % (what, held, work))
    if log:
      return FAIL("dispatch-of-deferred", "%s: dispatched %s while deferred" % (what, log))
    for i in range(npend):
      chart.post_fifo(ev.Event(signal="T_P%d" % i))
    for i in range(nd + 1):
      before = pending()
      r = chart.recall()
      got = None if r is None else r.signal_name
      want = work[i] if i < nd else None
      if got != want:
        return FAIL("recall-return:at-capacity", "%s: recall number %d returned %s expected %s (pending before: %s, deferred now %s)" % (
          what, i, got, want, before, [e.signal_name for e in chart.defer_queue]))
      now = pending()
      if want is not None and (not now or now[-1] != want):
        return FAIL("pending-after-recall:at-capacity", "%s: recall number %d: the recalled event is not at the back of the queue: %s" % (what, i, now))
      if want is None and now != before:
        return FAIL("pending-after-recall:at-capacity", "%s: a recall with nothing deferred changed the queue: %s -> %s" % (what, before, now))
      rest = [e.signal_name for e in chart.defer_queue]
      if rest != work[i + 1:]:
        return FAIL("deferred-queue:at-capacity", "%s: after recall number %d deferred %s expected %s" % (what, i, rest, work[i + 1:]))
  except Exception as ex:
    return FAIL("raised:" + type(ex).__name__, "%s: %r" % (what, ex))
  if queued.NBQueue.blocked:
    return FAIL("would-block", what)
  return PASS(nontrivial=nd > 0)


Family(globals(), "h_capacity", params=[("host", 0, 1), ("deco", 0, 1), ("nd", 0, 3), ("npend", 0, 3)], pre=lambda v, lim: True, case=case_capacity,
       split=[], tiers={"quick": {}, "thorough": {}})


def set_tier(tier):
  set_tier_all(globals(), tier)


def jobs(tier):
  return jobs_all(globals(), tier)
