"""C26 Event.dumps/Event.loads round-trip name and payload (DESIGN 6/C26)."""
from typing import Dict, List
from vf.core import PASS, FAIL, verdict_symbolic, fresh_miros, ladder

PROP = "C26"
PART = {}
FUNCTIONS = ["miros.event.Event.__init__", "miros.event.Event.dumps", "miros.event.Event.loads", "miros.event.SignalSource.append",
             "json.dumps/json.loads (real, on a pool of concrete names and payloads: family h_json)"]
ASSUMPTIONS = [
  "a fresh signal registry per path (the global one would let paths contaminate each other); variants: name new / already registered / a built-in",
  "symbolic harnesses: signal name drawn by a symbolic index from a pool of 16 names (empty, unicode, quotes, backslash, line separators, a built-in name, 'null', '0'): miros' code uses the name only as a dictionary key, and CrossHair realises symbolic str keys of the real OrderedDict registry value by value (measured: not confirmed in 600 s); payload = symbolic value of the harness's type (None, bool, int, "
  "str <= 2, List[int] <= 2, Dict[key from a pool of 4, symbolic int] <= 1, List[List[int]]); miros.event.json is replaced by a codec stub that satisfies only the documented "
  "contract loads(dumps(x)) == x (an opaque token holding a deep copy), so name and payload stay symbolic through miros' own code "
  "(with the real json module CrossHair did not finish within 600 s per condition - measured)",
  "real-json family h_json: 12 concrete names x 20 concrete payloads (unicode, quotes, backslashes, line separators, empty and falsy values, nesting, "
  "big ints, floats) through the real json module",
  "floats: CrossHair concretises floats at the C boundary; three fixed finite floats are checked as constants",
]
OUTSIDE = ["payload nesting deeper than 2", "names outside the pool (miros uses the name only as a dictionary key)", "non-finite floats (not JSON)", "non-string dict keys (not JSON-representable)"]
EXPLANATION = ("Symbolic execution (CrossHair/z3) of Event.loads(Event.dumps(e)) with symbolic signal name and symbolic payload: the result has the "
               "same name, an equal payload of the same JSON type, the number this process assigns to that name, and the name is registered afterwards.")
RULE = "paths = distinct behaviours of miros' code and the json codec on the symbolic name/payload"
LIM = {"quick": dict(L=2), "thorough": dict(L=3)}
REG = ["", "new", "registered", "builtin"]


def bounds(tier):
  d = dict(LIM[tier]); d["meaning"] = "L = max length of the symbolic signal name; payload types None,bool,int,str,List[int],Dict[str,int],List[List[int]],float constants"
  return d


class Token:
  """what the stub codec's dumps returns: an opaque text holding a deep copy of the JSON value"""

  def __init__(self, obj):
    self.obj = obj


class StubJson:
  """stands for the json module inside miros.event with only its documented contract: loads(dumps(x)) == x (a fresh equal value)
  for JSON-representable x.  It keeps name and payload symbolic through miros' own code."""

  @staticmethod
  def dumps(obj):
    import copy
    return Token(copy.deepcopy(obj))

  @staticmethod
  def loads(tok):
    import copy
    return copy.deepcopy(tok.obj)


def roundtrip(name, payload, variant, real_json=False):
  """returns ok (may be symbolic)"""
  sig = fresh_miros()
  import miros.event as ev
  import json as _json
  ev.json = _json if real_json else StubJson
  if variant == 2:
    sig.append(name)              # already registered by an earlier user
  before = len(sig)
  e = ev.Event(signal=name, payload=payload)
  text = ev.Event.dumps(e)
  e2 = ev.Event.loads(text)
  ok = (e2.signal_name == name)
  ok = ok and (type(e2.payload) is type(payload)) and (e2.payload == payload)
  ok = ok and (name in sig) and (e2.signal == sig[name]) and (e2.signal == e.signal)
  ev.json = _json
  return ok


def okname(name):
  return len(name) <= PART.get("L", 2)


def h_none(ni: int) -> bool:
  """
  pre: 0 <= ni < len(NAMES)
  post: _
  """
  ni = ladder(ni, 0, len(NAMES) - 1)
  return verdict_symbolic([ni, None, PART["variant"]], roundtrip(NAMES[ni], None, PART["variant"]), "round-trip:None")


def h_bool(ni: int, payload: bool) -> bool:
  """
  pre: 0 <= ni < len(NAMES)
  post: _
  """
  ni = ladder(ni, 0, len(NAMES) - 1)
  return verdict_symbolic([ni, payload, PART["variant"]], roundtrip(NAMES[ni], payload, PART["variant"]), "round-trip:bool")


def h_int(ni: int, payload: int) -> bool:
  """
  pre: 0 <= ni < len(NAMES)
  post: _
  """
  ni = ladder(ni, 0, len(NAMES) - 1)
  return verdict_symbolic([ni, payload, PART["variant"]], roundtrip(NAMES[ni], payload, PART["variant"]), "round-trip:int")


def h_str(ni: int, payload: str) -> bool:
  """
  pre: 0 <= ni < len(NAMES) and len(payload) <= 2
  post: _
  """
  ni = ladder(ni, 0, len(NAMES) - 1)
  return verdict_symbolic([ni, payload, PART["variant"]], roundtrip(NAMES[ni], payload, PART["variant"]), "round-trip:str")


def h_list(ni: int, payload: List[int]) -> bool:
  """
  pre: 0 <= ni < len(NAMES) and len(payload) <= 2
  post: _
  """
  ni = ladder(ni, 0, len(NAMES) - 1)
  return verdict_symbolic([ni, payload, PART["variant"]], roundtrip(NAMES[ni], payload, PART["variant"]), "round-trip:list")


KEYS = ["", "k", "\u00e9", "signal_name"]


def h_dict(ni: int, ki: int, has: bool, val: int) -> bool:
  """
  pre: 0 <= ni < len(NAMES) and 0 <= ki < len(KEYS)
  post: _
  """
  # dict keys come from a pool (CrossHair enumerates symbolic str keys of a real dict value by value and does not finish);
  # presence and value stay symbolic
  ni = ladder(ni, 0, len(NAMES) - 1)
  ki = ladder(ki, 0, len(KEYS) - 1)
  payload = {KEYS[ki]: val} if has else {}
  return verdict_symbolic([ni, ki, has, val, PART["variant"]], roundtrip(NAMES[ni], payload, PART["variant"]), "round-trip:dict")


def case_dict(ni, ki, has, val, variant):
  return case_generic(NAMES[ni], {KEYS[ki]: val} if has else {}, variant)


def h_nested(ni: int, payload: List[List[int]]) -> bool:
  """
  pre: 0 <= ni < len(NAMES) and len(payload) <= 2 and all(len(x) <= 1 for x in payload)
  post: _
  """
  ni = ladder(ni, 0, len(NAMES) - 1)
  return verdict_symbolic([ni, payload, PART["variant"]], roundtrip(NAMES[ni], payload, PART["variant"]), "round-trip:nested")


def h_builtin(which: int, payload: int) -> bool:
  """
  pre: 0 <= which < 10
  post: _
  """
  from vf.core import ladder
  which = ladder(which, 0, 9)
  sig = fresh_miros()
  name = list(sig.keys())[which]
  return verdict_symbolic([which, payload], roundtrip(name, payload, 3), "round-trip:builtin-name")


def h_float(k: int) -> bool:
  """
  pre: 0 <= k <= 2
  post: _
  """
  from vf.core import ladder
  k = ladder(k, 0, 2)
  return verdict_symbolic([k], roundtrip("F", [0.5, -1e300, 3.141592653589793][k], 1, True), "round-trip:float")


def case_generic(name, payload, variant):
  ok = roundtrip(name, payload, variant) and roundtrip(name, payload, variant, True)
  if not ok:
    import miros.event as ev
    e2 = ev.Event.loads(ev.Event.dumps(ev.Event(signal=name, payload=payload)))
    return FAIL("round-trip:" + type(payload).__name__ + (":falsy-payload" if not payload and payload is not None else ""),
                "Event(%r, payload=%r) comes back as (%r, payload=%r)" % (name, payload, e2.signal_name, e2.payload))
  return PASS()


def case_builtin(which, payload):
  sig = fresh_miros()
  return case_generic(list(sig.keys())[which], payload, 3)


def case_float(k):
  return case_generic("F", [0.5, -1e300, 3.141592653589793][k], 1)


NAMES = ["", "A", "\u00e9", "\"", "\\", "\n", "a b", "ENTRY_SIGNAL", "\u2028", "\U0001F4A5", "null", "0",
         "update", "keys", "highest_inner_signal", "signal_name"]       # names spelled like attributes of the registry object / of the json record
PAYLOADS = [None, True, False, 0, -1, 2 ** 70, "", "x\"y\\", "\u2028\n", [], [0], [[]], [None, False, 0, ""], {}, {"": 0}, {"k": [1, {"z": None}]},
            0.5, -1e300, 5e-324, 0.1 + 0.2]


def pre_json(v, lim):
  return True


def case_json(ni, pi, variant):
  name, payload = NAMES[ni], PAYLOADS[pi]
  import copy
  want = copy.deepcopy(payload)
  ok = roundtrip(name, payload, variant, True)
  if not ok:
    import miros.event as ev
    fresh_miros()
    e2 = ev.Event.loads(ev.Event.dumps(ev.Event(signal=name, payload=want)))
    return FAIL("round-trip:real-json:" + type(payload).__name__ + (":falsy-payload" if not payload and payload is not None else ""),
                "Event(%r, payload=%r) comes back as (%r, payload=%r)" % (name, want, e2.signal_name, e2.payload))
  return PASS(nontrivial=bool(name) or payload is not None)


from vf.family import Family, set_tier_all, jobs_all   # noqa: E402
Family(globals(), "h_json", params=[("ni", 0, len(NAMES) - 1), ("pi", 0, len(PAYLOADS) - 1), ("variant", 1, 2)], pre=pre_json, case=case_json,
       split=["variant"], tiers=LIM)
_JSON_CASE = case_json

def case_reload(ni, pi):
  """the same serialized text is loaded twice, the first result is changed in between (payload emptied / extended in place, payload attribute
  reassigned): the second load must still give the event that was sent"""
  import copy
  import miros.event as ev
  name, payload = NAMES[ni], PAYLOADS[pi]
  want = copy.deepcopy(payload)
  fresh_miros()
  e = ev.Event(signal=name, payload=copy.deepcopy(payload))
  text = ev.Event.dumps(e)
  e1 = ev.Event.loads(text)
  if isinstance(e1.payload, list):
    e1.payload.append("changed")
  elif isinstance(e1.payload, dict):
    e1.payload["changed"] = 1
  e1.payload = "replaced" if not isinstance(e1.payload, (list, dict)) else e1.payload
  e2 = ev.Event.loads(text)
  if isinstance(e1.payload, (list, dict)):
    e1.payload = None
    e3 = ev.Event.loads(text)
  else:
    e3 = e2
  for got in (e2, e3):
    if got.signal_name != name or got.payload != want or got.signal != e.signal:
      return FAIL("round-trip:second-load-sees-first-result", "Event(%r, payload=%r): a second loads() of the same text, after the first result was changed, gives (%r, payload=%r)" % (
        name, want, got.signal_name, got.payload))
  return PASS(nontrivial=True)


Family(globals(), "h_reload", params=[("ni", 0, len(NAMES) - 1), ("pi", 0, len(PAYLOADS) - 1)], pre=pre_json, case=case_reload, split=[], tiers={"quick": {}, "thorough": {}})


def case_pool(ni, payload, variant):
  if isinstance(payload, dict):
    payload = dict(payload)
  return case_generic(NAMES[ni], payload, variant)


CASES_EXTRA = {"h_none": case_pool, "h_bool": case_pool, "h_int": case_pool, "h_str": case_pool, "h_list": case_pool,
               "h_dict": case_dict, "h_nested": case_pool, "h_builtin": case_builtin, "h_float": case_float}
CASES.update(CASES_EXTRA)


def set_tier(tier):
  set_tier_all(globals(), tier)


def jobs(tier):
  L = LIM[tier]["L"]
  out = []
  for h in ("h_none", "h_bool", "h_int", "h_str", "h_list", "h_dict", "h_nested"):
    for variant in (1, 2):
      out.append({"harness": h, "part": {"variant": variant, "L": L, "tier": tier}, "expected": None, "timeout": 600 if tier == "quick" else 2400})
  out.append({"harness": "h_builtin", "part": {"tier": tier}, "expected": None, "timeout": 300})
  out.append({"harness": "h_float", "part": {"tier": tier}, "expected": None, "timeout": 300})
  out.extend(jobs_all(globals(), tier))
  return out
