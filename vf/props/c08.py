"""C08 Fabric delivers by priority, and equal priorities in publish order (DESIGN 6/C08)."""
from vf.core import PASS, FAIL, ladder, verdict_symbolic
from vf import fabric

PROP = "C08"
PART = {}
FUNCTIONS = ["miros.activeobject.FabricEvent.__lt__/__eq__", "miros.activeobject.ActiveFabricSource.publish",
             "miros.activeobject.ActiveFabricSource.thread_runner_fifo/thread_runner_lifo", "queue.PriorityQueue / heapq (real; its comparisons call back into FabricEvent)"]
ASSUMPTIONS = [
  "priorities are symbolic ints (0..2) all the way through the real heap: heapq's comparisons call FabricEvent.__lt__ on them, the solver decides each comparison",
  "lag pattern: after publication i the delivery body consumes m_i items (concrete per partition, all patterns enumerated); at the end it drains the queue; "
  "phase interleaving only (whole loop iterations between publish calls)",
  "one subscriber queue per kind (fifo and lifo are checked separately)",
]
OUTSIDE = ["more than n publications", "priorities outside 0..2 (only their order matters)", "interleavings inside one publish or one delivery iteration"]
EXPLANATION = ("Symbolic execution (CrossHair/z3) of publish + the real PriorityQueue + the delivery bodies with symbolic priorities and every lag "
               "pattern: oracle = a reference priority queue ordered by (priority, publication index) driven by the same lag pattern; the subscriber's "
               "contents must equal it. Confirmed over all paths = for every assignment of priorities and every lag pattern within the bound.")
RULE = "paths are the distinct outcomes of the heap's comparisons on symbolic priorities, per lag pattern; every path has at least two publications"
LEVEL = "other"
LIM = {"quick": dict(n=4), "thorough": dict(n=5)}


def bounds(tier):
  d = dict(LIM[tier]); d["meaning"] = "n = publications per case; priorities 0..2 symbolic; lag pattern m_i in 0..(items waiting), all enumerated as partitions"
  return d


def lag_patterns(n):
  """all (m_1..m_n): after publication i consume m_i <= waiting items"""
  out = []

  def rec(i, waiting, acc):
    if i == n:
      out.append(tuple(acc))
      return
    w = waiting + 1
    for m in range(w + 1):
      rec(i + 1, w - m, acc + [m])
  rec(0, 0, [])
  return out


def run(prios, lags, kind, stop_after=-1):
  """returns (delivered publication indices, reference order); prios may be symbolic.
  Priorities are handed over as p + 1000: equal priorities are then distinct int objects, as priorities computed at run time are.
  stop_after = i: the fabric's stop() is called after publication i (a backlog that spans a stop keeps its order)"""
  hsm, ao = fabric.install()
  from collections import deque
  from miros.event import Event
  af = ao.ActiveFabricSource()
  q = deque(maxlen=50)
  sub = Event(signal="PA")
  af.subscribe(q, sub, kind)
  evs = [Event(signal="PA", payload=i) for i in range(len(prios))]
  # the fabric has been in use for a while: three earlier publications (of a signal nobody subscribed to) were delivered already
  for _ in range(3):
    af.publish(Event(signal="PW"), priority=1000)
  fabric.pump_direct(af, kind, 4)
  ref, out_ref = [], []
  for i, p in enumerate(prios):
    af.publish(evs[i], priority=p + 1000)
    ref.append((p, i))
    if i == stop_after:
      af.stop()
    m = lags[i]
    if m:
      fabric.pump_direct(af, kind, m)
      ref.sort()
      for _ in range(m):
        out_ref.append(ref.pop(0)[1])
  fabric.pump_direct(af, kind, len(ref) + 1)
  ref.sort()
  out_ref += [i for _, i in ref]
  return [e.payload for e in q], out_ref


def _h(prios, kind):
  lags = PART["lags"]
  for p in prios:
    if not (0 <= p <= 2):
      return True
  got, want = run(prios, lags, "fifo" if kind == 0 else "lifo", PART.get("stop_after", -1))
  ok = (got == want)
  return verdict_symbolic(list(prios) + [list(lags), kind, PART.get("stop_after", -1)], ok, "delivery-order", "lags=%s" % (list(lags),))


def h_prio4(p0: int, p1: int, p2: int, p3: int) -> bool:
  """
  pre: 0 <= p0 <= 2 and 0 <= p1 <= 2 and 0 <= p2 <= 2 and 0 <= p3 <= 2
  post: _
  """
  return _h([p0, p1, p2, p3], PART["kind"])


def h_prio5(p0: int, p1: int, p2: int, p3: int, p4: int) -> bool:
  """
  pre: 0 <= p0 <= 2 and 0 <= p1 <= 2 and 0 <= p2 <= 2 and 0 <= p3 <= 2 and 0 <= p4 <= 2
  post: _
  """
  return _h([p0, p1, p2, p3, p4], PART["kind"])


def case_prio(*args):
  args = list(args)
  stop_after = args[-1]
  kind = args[-2]
  lags = args[-3]
  prios = args[:-3]
  got, want = run(prios, lags, "fifo" if kind == 0 else "lifo", stop_after)
  if got != want:
    eq = [i for i in range(len(prios)) for j in range(i) if prios[i] == prios[j]]
    sig = "equal-priority-order" if sorted(got, key=lambda i: prios[i]) == got else "priority-order"
    if stop_after >= 0:
      sig += ":backlog-spans-stop"
    return FAIL(sig, "priorities %s lags %s %s stop() after publication %s: delivered %s expected %s" % (prios, lags, "fifo" if kind == 0 else "lifo", stop_after, got, want))
  return PASS()


CASES = {"h_prio4": case_prio, "h_prio5": case_prio}


def jobs(tier):
  n = LIM[tier]["n"]
  out = []
  for kind in (0, 1):
    for lags in lag_patterns(n):
      if kind == 1 and tier == "quick" and sum(lags) not in (0, n - 1):
        continue    # the lifo body is the same code shape; quick samples its extreme lag patterns only
      out.append({"harness": "h_prio%d" % n, "part": {"lags": list(lags), "kind": kind, "tier": tier}, "expected": None,
                  "timeout": 300 if tier == "quick" else 1200})
  # a backlog that spans a stop(): nothing consumed until the end, stop() after publication 0, 1, ...
  for kind in (0, 1):
    for sa in range(n - 1):
      if tier == "quick" and (kind == 1 or sa > 1):
        continue
      out.append({"harness": "h_prio%d" % n, "part": {"lags": [0] * n, "kind": kind, "tier": tier, "stop_after": sa}, "expected": None,
                  "timeout": 300 if tier == "quick" else 1200})
  return out
