"""C08 Fabric delivers by priority, and equal priorities in publish order (DESIGN 6/C08)."""
from vf.core import PASS, FAIL, ladder, verdict_symbolic
from vf import fabric

PROP = "C08"
PART = {}
FUNCTIONS = ["miros.activeobject.FabricEvent.__lt__/__eq__", "miros.activeobject.ActiveFabricSource.publish",
             "miros.activeobject.ActiveFabricSource.thread_runner_fifo/thread_runner_lifo", "queue.PriorityQueue / heapq (real; its comparisons call back into FabricEvent)"]
ASSUMPTIONS = [
  "E2 part: a caller thread runs a script of real ActiveFabricSource.subscribe / publish calls while the real thread_runner_fifo / thread_runner_lifo run as "
  "delivery threads, all translated from /repo's source on this run; the priority queues are contract models (items leave by priority, then arrival; the real "
  "heap and FabricEvent ordering are the E1 part's subject), the registries are dict models whose values are python lists created at run time (list iterators "
  "advance one step at a time against the live list), subscriber queues are plain deques",
  "E2 part, several publishers: 2-3 threads call the real ActiveFabricSource.publish (2+2, 3+1, 1+1+1 calls, equal priority); FabricEvent.__init__ is translated "
  "as written and the class's numbering state is modelled from the real class (an itertools.count is one indivisible step, an int attribute a shared cell, a lock a "
  "lock); the two fabric queues only record, per put, the number the item carries; asserted: a publish call that returned before another began has the smaller "
  "number in both queues (what FabricEvent.__lt__, checked on the real heap by the E1 part, needs to keep equal priorities in publish order)",
  "priorities are symbolic ints (0..2) all the way through the real heap: heapq's comparisons call FabricEvent.__lt__ on them, the solver decides each comparison",
  "lag pattern: after publication i the delivery body consumes m_i items (concrete per partition, all patterns enumerated); at the end it drains the queue; "
  "phase interleaving only (whole loop iterations between publish calls)",
  "one subscriber queue per kind (fifo and lifo are checked separately)",
]
OUTSIDE = ["more than n publications", "priorities outside 0..2 (only their order matters)", "E1: interleavings inside one publish or one delivery iteration (E2 covers them)",
           "more than 3 publishing threads / 4 concurrent publish calls"]
EXPLANATION = ("Symbolic execution (CrossHair/z3) of publish + the real PriorityQueue + the delivery bodies with symbolic priorities and every lag "
               "pattern: oracle = a reference priority queue ordered by (priority, publication index) driven by the same lag pattern; the subscriber's "
               "contents must equal it. Confirmed over all paths = for every assignment of priorities and every lag pattern within the bound.")
RULE = "paths are the distinct outcomes of the heap's comparisons on symbolic priorities, per lag pattern; every path has at least two publications"
LEVEL = "other"
LIM = {"quick": dict(n=4), "thorough": dict(n=5)}


def bounds(tier):
  d = dict(LIM[tier]); d["meaning"] = "n = publications per case; priorities 0..2 symbolic; lag pattern m_i in 0..(items waiting), all enumerated as partitions"
  return d


def lag_patterns(n):
  """all (m_1..m_n): after publication i consume m_i <= waiting items"""
  out = []

  def rec(i, waiting, acc):
    if i == n:
      out.append(tuple(acc))
      return
    w = waiting + 1
    for m in range(w + 1):
      rec(i + 1, w - m, acc + [m])
  rec(0, 0, [])
  return out


def run(prios, lags, kind, stop_after=-1):
  """returns (delivered publication indices, reference order); prios may be symbolic.
  Priorities are handed over as p + 1000: equal priorities are then distinct int objects, as priorities computed at run time are.
  stop_after = i: the fabric's stop() is called after publication i (a backlog that spans a stop keeps its order)"""
  hsm, ao = fabric.install()
  from collections import deque
  from miros.event import Event
  af = ao.ActiveFabricSource()
  q = deque(maxlen=50)
  sub = Event(signal="PA")
  af.subscribe(q, sub, kind)
  evs = [Event(signal="PA", payload=i) for i in range(len(prios))]
  # the fabric has been in use for a while: three earlier publications (of a signal nobody subscribed to) were delivered already
  for _ in range(3):
    af.publish(Event(signal="PW"), priority=1000)
  fabric.pump_direct(af, kind, 4)
  ref, out_ref = [], []
  for i, p in enumerate(prios):
    af.publish(evs[i], priority=p + 1000)
    ref.append((p, i))
    if i == stop_after:
      af.stop()
    m = lags[i]
    if m:
      fabric.pump_direct(af, kind, m)
      ref.sort()
      for _ in range(m):
        out_ref.append(ref.pop(0)[1])
  fabric.pump_direct(af, kind, len(ref) + 1)
  ref.sort()
  out_ref += [i for _, i in ref]
  return [e.payload for e in q], out_ref


def _h(prios, kind):
  lags = PART["lags"]
  for p in prios:
    if not (0 <= p <= 2):
      return True
  got, want = run(prios, lags, "fifo" if kind == 0 else "lifo", PART.get("stop_after", -1))
  ok = (got == want)
  return verdict_symbolic(list(prios) + [list(lags), kind, PART.get("stop_after", -1)], ok, "delivery-order", "lags=%s" % (list(lags),))


def h_prio4(p0: int, p1: int, p2: int, p3: int) -> bool:
  """
  pre: 0 <= p0 <= 2 and 0 <= p1 <= 2 and 0 <= p2 <= 2 and 0 <= p3 <= 2
  post: _
  """
  return _h([p0, p1, p2, p3], PART["kind"])


def h_prio5(p0: int, p1: int, p2: int, p3: int, p4: int) -> bool:
  """
  pre: 0 <= p0 <= 2 and 0 <= p1 <= 2 and 0 <= p2 <= 2 and 0 <= p3 <= 2 and 0 <= p4 <= 2
  post: _
  """
  return _h([p0, p1, p2, p3, p4], PART["kind"])


def case_prio(*args):
  args = list(args)
  stop_after = args[-1]
  kind = args[-2]
  lags = args[-3]
  prios = args[:-3]
  got, want = run(prios, lags, "fifo" if kind == 0 else "lifo", stop_after)
  if got != want:
    eq = [i for i in range(len(prios)) for j in range(i) if prios[i] == prios[j]]
    sig = "equal-priority-order" if sorted(got, key=lambda i: prios[i]) == got else "priority-order"
    if stop_after >= 0:
      sig += ":backlog-spans-stop"
    return FAIL(sig, "priorities %s lags %s %s stop() after publication %s: delivered %s expected %s" % (prios, lags, "fifo" if kind == 0 else "lifo", stop_after, got, want))
  return PASS()


CASES = {"h_prio4": case_prio, "h_prio5": case_prio}


def jobs(tier):
  n = LIM[tier]["n"]
  out = []
  for kind in (0, 1):
    for lags in lag_patterns(n):
      if kind == 1 and tier == "quick" and sum(lags) not in (0, n - 1):
        continue    # the lifo body is the same code shape; quick samples its extreme lag patterns only
      out.append({"harness": "h_prio%d" % n, "part": {"lags": list(lags), "kind": kind, "tier": tier}, "expected": None,
                  "timeout": 300 if tier == "quick" else 1200})
  # a backlog that spans a stop(): nothing consumed until the end, stop() after publication 0, 1, ...
  for kind in (0, 1):
    for sa in range(n - 1):
      if tier == "quick" and (kind == 1 or sa > 1):
        continue
      out.append({"harness": "h_prio%d" % n, "part": {"lags": [0] * n, "kind": kind, "tier": tier, "stop_after": sa}, "expected": None,
                  "timeout": 300 if tier == "quick" else 1200})
  return out

def e2_scenarios(tier):
  return [(dict(script="priorities", kinds=("fifo",)), 34)]


DIFF_KW = dict(script="priorities", kinds=("fifo",))


# ---- E2 part: the caller's subscribe/publish calls against the running delivery threads, every interleaving -------------------------------
def e2_specs(tier):
  out = []
  to = 900 if tier == "quick" else 3000
  for (kw, K) in e2_scenarios(tier):
    out.append(dict(scenario="fabric_delivery", kwargs=kw, kind="reach", K=K, pred="fabric_all_delivered", timeout=to))
    out.append(dict(scenario="fabric_delivery", kwargs=kw, kind="safety", K=K, pred="fabric_overdelivery", timeout=to, replay="fabric_delivery_replay"))
    out.append(dict(scenario="fabric_delivery", kwargs=kw, kind="deadlock", K=K, pred="fabric_quiescent_wrong", timeout=to, replay="fabric_delivery_replay"))
    out.append(dict(scenario="fabric_delivery", kwargs=kw, kind="adequacy", K=K, timeout=to))
  # several publishing threads: the numbering FabricEvent.__init__ gives (which FabricEvent.__lt__ uses among equal priorities) follows
  # the order in which the publish calls returned / began
  for (kw, K) in publisher_scenarios(tier):
    out.append(dict(scenario="publishers", kwargs=kw, kind="reach", K=K, pred="publish_ordered_across_threads", timeout=to))
    out.append(dict(scenario="publishers", kwargs=kw, kind="safety", K=K, pred="publish_order_bad", timeout=to, replay="publishers_replay"))
    out.append(dict(scenario="publishers", kwargs=kw, kind="deadlock", K=K, pred="publishers_open", timeout=to, replay="publishers_replay"))
    out.append(dict(scenario="publishers", kwargs=kw, kind="adequacy", K=K, timeout=to))
  return out


def publisher_scenarios(tier):
  """the publisher programs are loop-free: every operation runs at most once, so K = number of operations + 2 per thread + 2 covers every behaviour
  (the adequacy query confirms it); computed from the translated code, so a numbering scheme with more steps gets the bound it needs"""
  from vf.e2 import check, ir
  out = []
  for counts in ([(2, 2)] if tier == "quick" else [(2, 2), (3, 1), (1, 1, 1)]):
    kw = dict(counts=counts)
    _sc, sysm = check.build("publishers", kw)
    nops = sum(1 for p in sysm.programs for n in p.nodes if isinstance(n, ir.Op) and (p.tid, n.id) not in sysm.invisible)      # steps are taken at visible operations
    out.append((kw, min(60, nops + 2 * len(sysm.programs) + 2)))      # + each thread's entry and exit step
  return out


def publishers_signature(spec, r):
  real = r["replay"]["real"]
  if real["errors"]:
    return ("publish-raised", "%s; schedule: %s" % (real["errors"], r["trace"]), True)
  if spec["kind"] == "deadlock":
    n = len(spec["kwargs"]["counts"])
    return ("publisher-blocked-for-ever", "finished threads %s; schedule: %s" % (real["finished"], r["trace"]), len(real["finished"]) < n)
  g = r.get("ghost") or {}
  seqs = real["sequence_numbers"]
  calls = [(t, k) for t, n in enumerate(spec["kwargs"]["counts"]) for k in range(n)]
  wrong = []
  for a in calls:
    for b in calls:
      before = (a[0] == b[0] and a[1] < b[1]) or (a[0] != b[0] and g.get("g.hb.%d.%d.%d.%d" % (a + b)) == 1)
      if not before:
        continue
      for kind in ("fifo", "lifo"):
        sa, sb = seqs.get("%s.%d.%d" % ((kind,) + a)), seqs.get("%s.%d.%d" % ((kind,) + b))
        if sa is None or sb is None or not sa < sb:
          wrong.append("%s: publish %d of thread %d (returned first) has number %s, publish %d of thread %d has %s" % (kind, a[1], a[0], sa, b[1], b[0], sb))
  return ("publish-order-numbering", "publish calls from several threads: the real FabricEvent objects carry sequence numbers that do not follow the order of the "
          "calls (FabricEvent.__lt__ then cannot keep equal priorities in publish order): %s; schedule: %s" % ("; ".join(wrong[:3]), r["trace"]), bool(wrong))


def e2_signature(spec, r):
  if spec["scenario"] == "publishers":
    return publishers_signature(spec, r)
  real = r["replay"]["real"]
  script = spec["kwargs"]["script"]
  if real["errors"]:
    return ("delivery-raised:" + script, "%s; schedule: %s" % (real["errors"], r["trace"]), True)
  from vf.e2 import check
  from vf.e2.preds import fabric_allowed
  sc, _sysm = check.build("fabric_delivery", spec["kwargs"])
  idx = {rid: i for i, rid in enumerate(sc.info["events"])}
  allowed = {q: [[idx[x] for x in alt] for alt in alts] for q, alts in fabric_allowed(sc).items()}
  wrong = [q for q in ("q0", "q1") if real[q] not in allowed[q]]
  if spec["kind"] == "safety":
    over = [q for q in ("q0", "q1") if len(real[q]) > max(len(a) for a in allowed[q])]
    return ("delivered-too-often:" + script, "script %s on the real fabric: queues %s / %s, allowed %s; schedule: %s" % (
      spec["kwargs"]["script"], real["q0"], real["q1"], allowed, r["trace"]), bool(over))
  return ("delivery-wrong-at-quiescence:" + script, "script %s on the real fabric, everybody idle: queues q0=%s q1=%s, allowed %s; schedule: %s" % (
    script, real["q0"], real["q1"], allowed, r["trace"]), bool(wrong))


def solver_part(tier, known):
  from vf.e2 import propbase, harness
  FUNCTIONS.extend(x for x in propbase.functions_of("fabric_delivery", e2_scenarios(tier)[0][0]) if x not in FUNCTIONS)
  n = 6 if tier == "quick" else 24
  FUNCTIONS.extend(x for x in propbase.functions_of("publishers", publisher_scenarios(tier)[0][0]) if x not in FUNCTIONS)

  def differential():
    a = harness.fabric_delivery_differential(DIFF_KW, n, seed=41)
    b = harness.publishers_differential(publisher_scenarios(tier)[0][0], n, seed=43)
    return {"schedules": a["schedules"] + b["schedules"], "visible_operations": a["visible_operations"] + b["visible_operations"],
            "disagreements": a["disagreements"] + [dict(x, schedule="publishers-%s" % x.get("schedule")) for x in b["disagreements"]]}
  out = propbase.run(e2_specs(tier), known, e2_signature, jobs=8, differential=differential)
  out["coverage"]["e2_bounds"] = [{"kwargs": k, "K": K} for k, K in e2_scenarios(tier) + publisher_scenarios(tier)]
  return out
