"""C21 Live spy/trace output emits every line once, in order, whatever the clock says (DESIGN 6/C21)."""
from vf.core import PASS, FAIL
from vf.family import Family, set_tier_all, jobs_all
from vf import hosts

PROP = "C21"
PART = {}
FUNCTIONS = ["miros.hsm.HsmWithQueues.print_trace_after_at_start_if_live/print_spy_after_at_start_if_live/print_trace_after_rtc_if_live/"
             "print_spy_after_rtc_if_live", "miros.hsm.HsmWithQueues.trace_tuple_to_formatted_string", "miros.hsm.HsmWithQueues.next_rtc/start_at",
             "miros.activeobject.ActiveObject.register_live_spy_callback/register_live_trace_callback",
             "miros.activeobject.InstrumenationWriterClass._print and its thread_runner body (pumped)"]
ASSUMPTIONS = [
  "miros.hsm.stdlib_datetime replaced by a stub clock: now() returns a counter wrapped in an object with ==/!= and strftime; per step the "
  "solver chooses whether the clock stands still since the previous step (coarse clock), advanced once, or ticks on every call (fine clock)",
  "ActiveObject threads are recorded, never run; the writer thread's real body is pumped after each step; callbacks collect lines",
  "chart: states A and B inside P; T = transition A<->B, H = handled internally by P (hook), I = ignored by every state",
]
OUTSIDE = ["the behaviour of real print/stdout", "more than three steps per case (the printing logic carries one remembered record between steps)"]
EXPLANATION = ("Bounded symbolic execution (CrossHair/z3) of start_at and 2-3 steps with live_spy/live_trace on a queued chart and on an "
               "ActiveObject, with the wall clock symbolic. Oracle: the live trace callback received exactly one line per new trace record, in "
               "order, with the record's content; the live spy callback received exactly the lines of each step's spy_rtc(), once, in order.")
RULE = "one case per (step kinds, clock mode per step, host, live flags); non-trivial = at least one transition step under a standing clock"
LIM = {"quick": dict(S=2), "thorough": dict(S=3)}
STEPS = ["T", "H", "I", "S"]       # transition to the sibling, handled by the parent, ignored, self-transition (two of them under a standing clock give two identical records)


def bounds(tier):
  d = dict(LIM[tier]); d["meaning"] = "S = steps after start_at, each T/H/I/S (S = self-transition); ring 1 = the full spy log holds 8 lines and the full trace 2 records (both wrap within the case) and the queue capacity QUEUE_SIZE is 3 (fewer than the live lines of one step); clock mode per phase 0 stands still/1 advances once/2 ticks every call; hosts HsmWithQueues, ActiveObject; live_spy x live_trace"
  return d


def pre(v, lim):
  if lim["S"] < 3 and (v["s3"] != 4 or v["m3"] != 0):
    return False
  if lim["S"] >= 3 and v["s3"] == 4 and v["m3"] != 0:
    return False
  if v["live"] == 0:
    return False
  return True


class Stamp:
  def __init__(self, t):
    self.t = t

  def __eq__(self, o):
    return isinstance(o, Stamp) and self.t == o.t

  def __ne__(self, o):
    return not self.__eq__(o)

  def __hash__(self):
    return hash(self.t)


class Clock:
  t = 0
  tick = False

  @staticmethod
  def now():
    if Clock.tick:
      Clock.t += 1
    return Stamp(Clock.t)

  @staticmethod
  def strftime(obj, fmt):
    return "2017-11-05 15:17:39.%06d" % obj.t

  @staticmethod
  def phase(mode):
    Clock.tick = (mode == 2)
    if mode == 1:
      Clock.t += 1


def case(s1, s2, s3, m0, m1, m2, m3, hosti, live, ring=0):
  host = 2 if hosti == 0 else 4
  ls, lt = live & 1, (live >> 1) & 1
  import miros.hsm as hsm
  real_dt = hsm.stdlib_datetime
  Clock.t, Clock.tick = 0, False
  hsm.stdlib_datetime = Clock
  saved_ring = hsm.HsmEventProcessor.SPY_RING_BUFFER_SIZE
  try:
    # ring = 1: the full spy log holds 8 lines only, so it wraps within the case (a long-running chart's log is always full)
    hsm.HsmEventProcessor.SPY_RING_BUFFER_SIZE = 8 if ring else 500
    saved_trc = hsm.HsmEventProcessor.TRC_RING_BUFFER_SIZE
    hsm.HsmEventProcessor.TRC_RING_BUFFER_SIZE = 2 if ring else 500      # ... and the full trace holds 2 records: it is full after the first step
    # ... and the queue capacity (HsmWithQueues.QUEUE_SIZE, 500 in production) is 3: one step writes more live lines than that
    c, spy_lines, trace_lines = hosts.make(host, ls, lt, capacity=3 if ring else None)
    from miros.event import Event, signals, return_status
    T, H, I = Event(signal="T").signal, Event(signal="H").signal, Event(signal="I").signal
    SELF = Event(signal="S").signal

    @hsm.spy_on
    def P(chart, e):
      if e.signal in (signals.ENTRY_SIGNAL, signals.EXIT_SIGNAL, signals.INIT_SIGNAL):
        return return_status.HANDLED
      if e.signal == H:
        return return_status.HANDLED
      chart.temp.fun = chart.top
      return return_status.SUPER

    @hsm.spy_on
    def A(chart, e):
      if e.signal in (signals.ENTRY_SIGNAL, signals.EXIT_SIGNAL, signals.INIT_SIGNAL):
        return return_status.HANDLED
      if e.signal == T:
        return chart.trans(B)
      if e.signal == SELF:
        return chart.trans(A)
      chart.temp.fun = P
      return return_status.SUPER

    @hsm.spy_on
    def B(chart, e):
      if e.signal in (signals.ENTRY_SIGNAL, signals.EXIT_SIGNAL, signals.INIT_SIGNAL):
        return return_status.HANDLED
      if e.signal == T:
        return chart.trans(A)
      if e.signal == SELF:
        return chart.trans(B)
      chart.temp.fun = P
      return return_status.SUPER

    what = "host=%s live_spy=%d live_trace=%d steps=%s clock=%s%s" % (hosts.HOSTS[host], ls, lt, [s1, s2, s3], [m0, m1, m2, m3], " spy-ring=8 trace-ring=2 capacity=3" if ring else "")
    exp_trace, exp_spy = [], []
    seen = 0
    last_rec = None
    cur = "A"
    standing_tran = False
    phases = [(None, m0), (s1, m1), (s2, m2)] + ([(s3, m3)] if s3 != 4 else [])
    for (st, mode) in phases:
      Clock.phase(mode)
      if st is None:
        c.start_at(A)
      else:
        c.post_fifo(Event(signal=STEPS[st]))
        c.next_rtc()
      hosts.pump_writer(c)
      recs = list(c.full.trace)
      # the records made by this step: those behind the newest record seen so far (the full trace is a ring: with ring=1 it wraps)
      pos = [i for i, r in enumerate(recs) if r is last_rec]
      new_recs = recs[pos[-1] + 1:] if (last_rec is not None and pos) else recs
      for r in new_recs:
        sig = "start_at" if r.signal is None else r.signal
        exp_trace.append("e->%s() %s->%s" % (sig, r.start_state, r.end_state))
      if recs:
        last_rec = recs[-1]
      # independent expectation of what the new records are
      want_new = 0
      if st is None:
        want_new = 1
      elif st in (0, 3):
        want_new = 1
        if mode == 0:
          standing_tran = True
      if len(new_recs) != want_new:
        return FAIL("trace-record-count", "%s: %d new records after phase %s" % (what, len(new_recs), st))
      seen = len(recs)
      exp_spy.extend(c.spy_rtc())
    got_trace = [l.strip().split("] ", 2)[-1] for l in trace_lines]
    if lt:
      if len(got_trace) < len(exp_trace):
        return FAIL("live-trace-line-missing", "%s: got %s expected %s" % (what, got_trace, exp_trace))
      if len(got_trace) > len(exp_trace):
        return FAIL("live-trace-line-repeated", "%s: got %s expected %s" % (what, got_trace, exp_trace))
      if got_trace != exp_trace:
        return FAIL("live-trace-content", "%s: got %s expected %s" % (what, got_trace, exp_trace))
    elif trace_lines:
      return FAIL("live-trace-while-off", what)
    if ls:
      if spy_lines != exp_spy:
        return FAIL("live-spy-lines", "%s: got %s expected %s" % (what, spy_lines, exp_spy))
    elif spy_lines:
      return FAIL("live-spy-while-off", what)
    return PASS(nontrivial=standing_tran)
  finally:
    hsm.stdlib_datetime = real_dt
    hsm.HsmEventProcessor.SPY_RING_BUFFER_SIZE = saved_ring
    hsm.HsmEventProcessor.TRC_RING_BUFFER_SIZE = 500


Family(globals(), "h_live", params=[("s1", 0, 3), ("s2", 0, 3), ("s3", 0, 4), ("m0", 0, 2), ("m1", 0, 2), ("m2", 0, 2), ("m3", 0, 2),
                                    ("hosti", 0, 1), ("live", 0, 3), ("ring", 0, 1)],
       pre=pre, case=case, split=["hosti", "live"], tiers=LIM)


def set_tier(tier):
  set_tier_all(globals(), tier)


def jobs(tier):
  return jobs_all(globals(), tier)
