"""C31 A rejected timed post never fires (DESIGN 6/C31) - E1 part (two fixed schedules); every interleaving of the
rejected source's thread with the caller is the E2 scenario in solver_part."""
from vf.core import PASS, FAIL
from vf.family import Family, set_tier_all, jobs_all
from vf import fabric, hosts

PROP = "C31"
PART = {}
FUNCTIONS = ["miros.activeobject.ActiveObject.__post_event (capacity test, thread creation)", "post_event_thread_runner",
             "miros.activeobject.ActiveObject.post_fifo/post_lifo (timed form)"]
ASSUMPTIONS = [
  "E2 part: the caller runs the real post_fifo/post_lifo -> __post_event, translated whole from /repo's source on this run (capacity test, run flag, spec, "
  "Thread(...), start, tracking record); a thread the translated code creates is compiled on the spot from its target (the real post_event_thread_runner "
  "closure) and may run from the moment start() is called on it; the object's own thread (run_event) runs as well; the tracked list is full of running sources",
  "capacity of the tracked-source list (ActiveObject.QUEUE_SIZE, 500 in production) set to C = 1..3; the pending-event queue keeps capacity 8",
  "two schedules of the rejected source's thread: 'lazy' (it first runs after the caller returned) and 'eager' (it runs up to its first sleep as "
  "soon as it is started, before the caller continues); time.sleep is a virtual clock",
]
OUTSIDE = ["schedules other than lazy/eager (E2 part)", "capacities above the bound"]
EXPLANATION = ("E1: bounded symbolic execution (CrossHair/z3) of a timed post on an active object that already tracks its maximum number of timed "
               "sources, with symbolic capacity, deferral flag, queue kind, repeat count and schedule of the new thread. Oracle: "
               "ActiveObjectOutOfPostedEventResources is raised; the rejected event is never put into the queue (before or after the exception); the "
               "tracked sources keep their run flags and stay tracked.")
RULE = "one case per (capacity, deferred, kind, times, schedule); all non-trivial"
LIM = {"quick": dict(C=2), "thorough": dict(C=3)}


def bounds(tier):
  d = dict(LIM[tier]); d["meaning"] = "C = capacity of the tracked-source list; sched 0 lazy/1 eager; fin = tracked sources that have already finished (still tracked)"
  return d


def pre(v, lim):
  return v["C"] <= lim["C"] and v["fin"] < v["C"]


class StopAtSleep(BaseException):
  pass


class EagerThread(fabric.FabricThread):
  """start() runs the body at once up to its first sleep (the thread got the CPU before its creator continued)"""
  eager = False

  def start(self):
    super().start()
    if EagerThread.eager and getattr(self.target, "__name__", "") == "post_event_thread_runner":
      import miros.activeobject as ao
      vt = ao.time
      real_sleep = vt.sleep

      def sleep_once(p):
        raise StopAtSleep()
      vt.sleep = sleep_once
      try:
        self.target(*self.args)
        self.ended = True
      except StopAtSleep:
        self.asleep = True
      finally:
        vt.sleep = real_sleep


def case(C, deferred, kind, n, sched, fin=0):
  hsm, ao = fabric.install()
  from miros.event import Event
  ao.Thread = EagerThread
  EagerThread.eager = False
  ao.time = fabric.VirtualTime()
  ao.ActiveObject.QUEUE_SIZE = C
  hsm.HsmWithQueues.QUEUE_SIZE = 8
  import builtins
  a, log = fabric.make_active_object(ao, hsm)
  old = []
  # fin of the tracked sources have fired their one time and finished; they stay tracked (nobody cancelled them) and count
  done = []
  for i in range(fin):
    done.append(a.post_fifo(Event(signal="W_DONE%d" % i), period=5, times=1, deferred=True))
  for t in fabric.timer_threads():
    if not t.ended:
      t.run_body()
  while len(a.queue.deque):
    a.queue.deque.popleft()
  for i in range(C - fin):
    tid = a.post_fifo(Event(signal="W_OLD%d" % i), period=5, times=0, deferred=True)
    old.append(tid)
  recs = {r.uuid: r for r in a.posted_events_queue}
  if len(recs) != C:
    return FAIL("harness:tracked-count", "%d tracked, expected %d" % (len(recs), C))
  ev = Event(signal="W_REJECTED")
  what = "capacity=%d (%d of them finished) deferred=%s kind=%s times=%d schedule=%s" % (C, fin, bool(deferred), "lifo" if kind else "fifo", n, "eager" if sched else "lazy")
  EagerThread.eager = bool(sched)
  real_pp = ao.pp
  ao.pp = lambda x: None          # the rejection branch pretty-prints the tracked list; output is not the subject
  raised = False
  try:
    if kind:
      a.post_lifo(ev, period=1, times=n, deferred=bool(deferred))
    else:
      a.post_fifo(ev, period=1, times=n, deferred=bool(deferred))
  except ao.ActiveObjectOutOfPostedEventResources:
    raised = True
  except Exception as ex:
    return FAIL("other-exception:" + type(ex).__name__, "%s: %r" % (what, ex))
  finally:
    ao.pp = real_pp
    EagerThread.eager = False
  if not raised:
    return FAIL("no-exception", what)
  # let every thread of the rejected source run to its end (lazy: from the start; eager: it is asleep and would wake and re-test its flag)
  for t in fabric.timer_threads():
    if t.args and t.args[0].event is ev and not t.ended and not getattr(t, "asleep", False):
      try:
        t.run_body()
      except Exception as ex:
        return FAIL("rejected-thread-raised:" + type(ex).__name__, "%s: %r" % (what, ex))
  posted = sum(1 for x in a.queue.deque if x is ev)
  if posted:
    return FAIL("rejected-source-posted:" + ("eager" if sched else "lazy") + (":deferred" if deferred else ":immediate"),
                "%s: the rejected event is in the queue %d time(s)" % (what, posted))
  for t in fabric.timer_threads():
    if t.args and t.args[0].event is ev and t.args[0].task_run_event.is_set():
      return FAIL("rejected-source-left-running", what)
  for tid in done:
    if not any(x.uuid == tid for x in a.posted_events_queue):
      return FAIL("tracked-source-untracked", "%s: a finished source left the tracked list" % what)
  for tid in old:
    r = recs[tid]
    if not r.task_run_event.is_set():
      return FAIL("tracked-source-stopped", "%s: %s" % (what, r.signal_name))
    if not any(x.uuid == tid for x in a.posted_events_queue):
      return FAIL("tracked-source-untracked", "%s: %s" % (what, r.signal_name))
  return PASS()


Family(globals(), "h_reject", params=[("C", 1, 3), ("deferred", 0, 1), ("kind", 0, 1), ("n", 0, 2), ("sched", 0, 1), ("fin", 0, 2)],
       pre=pre, case=case, split=[], tiers=LIM)


def set_tier(tier):
  set_tier_all(globals(), tier)


def jobs(tier):
  return jobs_all(globals(), tier)


# ---- E2 part: every interleaving of the caller with the thread of the rejected source -------------------------------------------------
def e2_scenarios(tier):
  out = []
  for deferred in (False, True):
    for kind in (("fifo",) if tier == "quick" else ("fifo", "lifo")):
      out.append((dict(deferred=deferred, times=1, kind=kind, capacity=2, pending=0), 22))
  # somebody calls cancel_event with an id nobody has while the post is made: the list is full the whole time, the post must be rejected
  out.append((dict(deferred=False, times=1, kind="fifo", capacity=2, pending=0, canceller="absent"), 30))
  if tier == "thorough":
    out.append((dict(deferred=False, times=2, kind="fifo", capacity=1, pending=1), 30))
  return out


def e2_specs(tier):
  out = []
  for (kw, K) in e2_scenarios(tier):
    out.append(dict(scenario="rejecting", kwargs=kw, kind="reach", K=K, pred="rejected", timeout=900))
    out.append(dict(scenario="rejecting", kwargs=kw, kind="safety", K=K, pred="rejecting_bad", timeout=900, replay="rejecting_replay"))
    out.append(dict(scenario="rejecting", kwargs=kw, kind="safety", K=K, pred="new_flag_left_up", timeout=900, replay="rejecting_replay"))
    out.append(dict(scenario="rejecting", kwargs=kw, kind="deadlock", K=K, pred="caller_open", timeout=900, replay="rejecting_replay"))
    out.append(dict(scenario="rejecting", kwargs=kw, kind="adequacy", K=K, timeout=900))
  return out


def e2_signature(spec, r):
  real = r["replay"]["real"]
  kw = spec["kwargs"]
  tag = "deferred" if kw["deferred"] else "immediate"
  if spec["kind"] == "deadlock":
    return ("timed-post-blocked-for-ever", "schedule: %s" % (r["trace"],), not real["outcome"])
  if real["outcome"].get("error"):
    return ("other-exception", "%s; schedule: %s" % (real["outcome"], r["trace"]), True)
  if real["outcome"].get("accepted"):
    return ("no-exception", "the post was accepted although the object tracks its maximum (%d); schedule: %s" % (kw["capacity"], r["trace"]), True)
  posted = real["rejected_event_in_queue"] + real["rejected_event_dispatched"]
  if posted:
    return ("rejected-source-posted:interleaving:" + tag, "the call raised, yet the rejected event was posted %d time(s) on the real object; schedule: %s" % (posted, r["trace"]), True)
  if spec["pred"] == "new_flag_left_up":
    return ("rejected-source-left-running", "the rejected source's run flag is still up after the call raised; schedule: %s" % (r["trace"],), any(real["new_flag_up"]))
  return ("tracked-source-disturbed", "old flags up %s, %d tracked; schedule: %s" % (real["old_flags_up"], real["tracked"], r["trace"]),
          not all(real["old_flags_up"]) or real["tracked"] != kw["capacity"])


def solver_part(tier, known):
  from vf.e2 import propbase, harness
  FUNCTIONS.extend(x for x in propbase.functions_of("rejecting", e2_scenarios(tier)[0][0]) if x not in FUNCTIONS)
  n = 6 if tier == "quick" else 20
  out = propbase.run(e2_specs(tier), known, e2_signature, jobs=10,
                     differential=lambda: harness.rejecting_differential(dict(deferred=False, pending=1), n, seed=31))
  out["coverage"]["e2_bounds"] = [{"kwargs": k, "K": K} for k, K in e2_scenarios(tier)]
  for q in out["coverage"]["bmc_queries"]:
    if q["kind"] == "adequacy" and q["result"] == "sat":
      out["inconclusive"].append("K=%s does not cover every behaviour of %s (adequacy query sat)" % (q["K"], q["kwargs"]))
  return out
