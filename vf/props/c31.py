"""C31 A rejected timed post never fires (DESIGN 6/C31) - E1 part (two fixed schedules); every interleaving of the
rejected source's thread with the caller is the E2 scenario in solver_part."""
from vf.core import PASS, FAIL
from vf.family import Family, set_tier_all, jobs_all
from vf import fabric, hosts

PROP = "C31"
PART = {}
FUNCTIONS = ["miros.activeobject.ActiveObject.__post_event (capacity test, thread creation)", "post_event_thread_runner",
             "miros.activeobject.ActiveObject.post_fifo/post_lifo (timed form)"]
ASSUMPTIONS = [
  "capacity of the tracked-source list (ActiveObject.QUEUE_SIZE, 500 in production) set to C = 1..3; the pending-event queue keeps capacity 8",
  "two schedules of the rejected source's thread: 'lazy' (it first runs after the caller returned) and 'eager' (it runs up to its first sleep as "
  "soon as it is started, before the caller continues); time.sleep is a virtual clock",
]
OUTSIDE = ["schedules other than lazy/eager (E2 part)", "capacities above the bound"]
EXPLANATION = ("E1: bounded symbolic execution (CrossHair/z3) of a timed post on an active object that already tracks its maximum number of timed "
               "sources, with symbolic capacity, deferral flag, queue kind, repeat count and schedule of the new thread. Oracle: "
               "ActiveObjectOutOfPostedEventResources is raised; the rejected event is never put into the queue (before or after the exception); the "
               "tracked sources keep their run flags and stay tracked.")
RULE = "one case per (capacity, deferred, kind, times, schedule); all non-trivial"
LIM = {"quick": dict(C=2), "thorough": dict(C=3)}


def bounds(tier):
  d = dict(LIM[tier]); d["meaning"] = "C = capacity of the tracked-source list; sched 0 lazy/1 eager; fin = tracked sources that have already finished (still tracked)"
  return d


def pre(v, lim):
  return v["C"] <= lim["C"] and v["fin"] < v["C"]


class StopAtSleep(BaseException):
  pass


class EagerThread(fabric.FabricThread):
  """start() runs the body at once up to its first sleep (the thread got the CPU before its creator continued)"""
  eager = False

  def start(self):
    super().start()
    if EagerThread.eager and getattr(self.target, "__name__", "") == "post_event_thread_runner":
      import miros.activeobject as ao
      vt = ao.time
      real_sleep = vt.sleep

      def sleep_once(p):
        raise StopAtSleep()
      vt.sleep = sleep_once
      try:
        self.target(*self.args)
        self.ended = True
      except StopAtSleep:
        self.asleep = True
      finally:
        vt.sleep = real_sleep


def case(C, deferred, kind, n, sched, fin=0):
  hsm, ao = fabric.install()
  from miros.event import Event
  ao.Thread = EagerThread
  EagerThread.eager = False
  ao.time = fabric.VirtualTime()
  ao.ActiveObject.QUEUE_SIZE = C
  hsm.HsmWithQueues.QUEUE_SIZE = 8
  import builtins
  a, log = fabric.make_active_object(ao, hsm)
  old = []
  # fin of the tracked sources have fired their one time and finished; they stay tracked (nobody cancelled them) and count
  done = []
  for i in range(fin):
    done.append(a.post_fifo(Event(signal="W_DONE%d" % i), period=5, times=1, deferred=True))
  for t in fabric.timer_threads():
    if not t.ended:
      t.run_body()
  while len(a.queue.deque):
    a.queue.deque.popleft()
  for i in range(C - fin):
    tid = a.post_fifo(Event(signal="W_OLD%d" % i), period=5, times=0, deferred=True)
    old.append(tid)
  recs = {r.uuid: r for r in a.posted_events_queue}
  if len(recs) != C:
    return FAIL("harness:tracked-count", "%d tracked, expected %d" % (len(recs), C))
  ev = Event(signal="W_REJECTED")
  what = "capacity=%d (%d of them finished) deferred=%s kind=%s times=%d schedule=%s" % (C, fin, bool(deferred), "lifo" if kind else "fifo", n, "eager" if sched else "lazy")
  EagerThread.eager = bool(sched)
  real_pp = ao.pp
  ao.pp = lambda x: None          # the rejection branch pretty-prints the tracked list; output is not the subject
  raised = False
  try:
    if kind:
      a.post_lifo(ev, period=1, times=n, deferred=bool(deferred))
    else:
      a.post_fifo(ev, period=1, times=n, deferred=bool(deferred))
  except ao.ActiveObjectOutOfPostedEventResources:
    raised = True
  except Exception as ex:
    return FAIL("other-exception:" + type(ex).__name__, "%s: %r" % (what, ex))
  finally:
    ao.pp = real_pp
    EagerThread.eager = False
  if not raised:
    return FAIL("no-exception", what)
  # let every thread of the rejected source run to its end (lazy: from the start; eager: it is asleep and would wake and re-test its flag)
  for t in fabric.timer_threads():
    if t.args and t.args[0].event is ev and not t.ended and not getattr(t, "asleep", False):
      try:
        t.run_body()
      except Exception as ex:
        return FAIL("rejected-thread-raised:" + type(ex).__name__, "%s: %r" % (what, ex))
  posted = sum(1 for x in a.queue.deque if x is ev)
  if posted:
    return FAIL("rejected-source-posted:" + ("eager" if sched else "lazy") + (":deferred" if deferred else ":immediate"),
                "%s: the rejected event is in the queue %d time(s)" % (what, posted))
  for t in fabric.timer_threads():
    if t.args and t.args[0].event is ev and t.args[0].task_run_event.is_set():
      return FAIL("rejected-source-left-running", what)
  for tid in done:
    if not any(x.uuid == tid for x in a.posted_events_queue):
      return FAIL("tracked-source-untracked", "%s: a finished source left the tracked list" % what)
  for tid in old:
    r = recs[tid]
    if not r.task_run_event.is_set():
      return FAIL("tracked-source-stopped", "%s: %s" % (what, r.signal_name))
    if not any(x.uuid == tid for x in a.posted_events_queue):
      return FAIL("tracked-source-untracked", "%s: %s" % (what, r.signal_name))
  return PASS()


Family(globals(), "h_reject", params=[("C", 1, 3), ("deferred", 0, 1), ("kind", 0, 1), ("n", 0, 2), ("sched", 0, 1), ("fin", 0, 2)],
       pre=pre, case=case, split=[], tiers=LIM)


def set_tier(tier):
  set_tier_all(globals(), tier)


def jobs(tier):
  return jobs_all(globals(), tier)
