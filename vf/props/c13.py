"""C13 Fabric start/stop/restart keeps exactly one delivery thread per kind (DESIGN 6/C13)."""
from vf.core import PASS, FAIL
from vf.family import Family, set_tier_all, jobs_all
from vf import fabric
from vf.queued import WouldBlock

PROP = "C13"
PART = {}
FUNCTIONS = ["miros.activeobject.ActiveFabricSource.start/initiate_thread", "miros.activeobject.ActiveFabricSource.is_alive",
             "miros.activeobject.ActiveFabricSource.stop/stop_thread", "miros.activeobject.ActiveFabricSource.clear/subscribe/publish",
             "miros.activeobject.ActiveFabricSource.thread_runner_fifo/thread_runner_lifo", "miros.activeobject.ActiveObject.run_event/start_at"]
ASSUMPTIONS = [
  "E2 part: caller threads run the real ActiveFabricSource.start (translated from /repo's source on this run) concurrently; Thread(...) takes a thread from a "
  "pool of modelled threads whose body is the delivery loop waiting on the fabric's queue of its kind; fifo_thread / lifo_thread are shared attributes (one step "
  "per load and per store); locks of the fabric object (found by introspection) are RLock models",
  "threading.Thread replaced by a recording stand-in: a started delivery thread counts as alive until its body has returned; join() runs the real "
  "body from inside its loop (the thread is blocked in queue.get) and would never return if the body blocked again",
  "delivery is pumped after publish with a counting run flag, using the queue and registry objects the thread was started with",
  "delivery after restart is asserted only when the fabric is running and clear() was not called since it last went from stopped to running "
  "(clear() replaces the queues a running thread holds; the statement only promises that a later start() resumes delivery)",
]
OUTSIDE = ["real thread scheduling inside start/stop", "sequences longer than the bound (the life-cycle state is three handles and a flag; pre-states cover it)"]
EXPLANATION = ("Bounded symbolic execution (CrossHair/z3) of the fabric life-cycle: a symbolic pre-state (never started / running / stopped, reached "
               "through the real API) followed by a symbolic sequence of operations from {start, stop, clear, subscribe, publish+deliver}. Oracle, "
               "checked after every operation over all thread objects ever created: at most one alive delivery thread per kind; is_alive() iff one "
               "of each kind is alive; none alive after stop; after a (re)start a fresh subscription receives a fresh publication exactly once. "
               "A second family checks that a started active object woken after fabric.stop() clears its own flag and dispatches nothing.")
RULE = "one case per (pre-state, operation sequence); non-trivial = the sequence contains at least one start or stop"
LIM = {"quick": dict(K=3), "thorough": dict(K=4)}
OPS = ["start", "stop", "clear", "subscribe", "publish", None, "the lifo delivery thread dies"]
PRE = ["never-started", "running", "stopped"]


def bounds(tier):
  d = dict(LIM[tier]); d["meaning"] = "K = operations after the pre-state; ops=%s (5 = none); pre-states=%s; jpos 1 = stop() finds the delivery threads at their loop test instead of waiting in get()" % (OPS, PRE)
  return d


def pre(v, lim):
  ops = [v["o1"], v["o2"], v["o3"], v["o4"]]
  K = lim["K"]
  if sum(1 for o in ops if o == 6) > 1:
    return False
  for i, o in enumerate(ops):
    if i >= K and o != 5:
      return False
  seen_none = False
  for o in ops:          # canonical: 'none' only at the end
    if o == 5:
      seen_none = True
    elif seen_none:
      return False
  return True


def observe(af, what, running_model):
  for kind in ("fifo", "lifo"):
    alive = fabric.fabric_threads(kind)
    if len(alive) > 1:
      return FAIL("two-delivery-threads", "%s: %d alive %s threads" % (what, len(alive), kind))
  both = len(fabric.fabric_threads("fifo")) == 1 and len(fabric.fabric_threads("lifo")) == 1
  if bool(af.is_alive()) != both:
    return FAIL("is_alive-wrong", "%s: is_alive() %s but alive threads fifo=%d lifo=%d" % (what, af.is_alive(), len(fabric.fabric_threads("fifo")), len(fabric.fabric_threads("lifo"))))
  if running_model == "half":
    return None
  if not running_model and fabric.fabric_threads():
    return FAIL("thread-alive-after-stop", "%s: %d threads alive" % (what, len(fabric.fabric_threads())))
  if running_model and not both:
    return FAIL("not-running-after-start", what)
  return None


def case(pre_state, o1, o2, o3, o4, jpos=0):
  hsm, ao = fabric.install()
  fabric.FabricThread.at_loop_test = bool(jpos)
  from collections import deque
  from miros.event import Event
  af = ao.ActiveFabricSource()
  running = False
  clean = True          # no clear() since the fabric last went from stopped to running
  what = "pre=%s ops=%s%s" % (PRE[pre_state], [OPS[o] for o in (o1, o2, o3, o4) if o != 5], " (stop finds the delivery threads at their loop test)" if jpos else "")
  n = [0]

  def probe():
    """fresh subscription + fresh publication: delivered exactly once by the running fabric"""
    n[0] += 1
    q = deque(maxlen=10)
    ev = Event(signal="PROBE%d" % n[0])
    af.subscribe(q, ev)
    af.publish(ev)
    fabric.pump_fabric()
    return sum(1 for x in q if x is ev), len(q)

  try:
    if pre_state >= 1:
      af.start(); running = True
    if pre_state == 2:
      af.stop(); running = False
    f = observe(af, what + " (pre-state)", running)
    if f:
      return f
    for o in (o1, o2, o3, o4):
      if o == 5:
        continue
      if o == 0:
        if running is False:
          clean = True
        af.start(); running = True
      elif o == 1:
        af.stop(); running = False
        if fabric.fabric_threads():
          return FAIL("thread-alive-after-stop", "%s: %d threads alive after stop" % (what, len(fabric.fabric_threads())))
      elif o == 2:
        af.clear(); clean = False
      elif o == 3:
        af.subscribe(deque(maxlen=5), Event(signal="S"))
      elif o == 6:
        # a delivery thread ends by itself (a subscriber object without append() raised inside it)
        alive = fabric.fabric_threads("lifo")
        if alive:
          alive[0].ended = True
          running = "half"
      else:
        af.publish(Event(signal="S"))
        fabric.pump_fabric()
      f = observe(af, what + " after " + OPS[o], running)
      if f:
        return f
    if running is True and clean:
      got, total = probe()
      if got != 1 or total != 1:
        return FAIL("no-delivery-after-start", "%s: probe publication delivered %d times" % (what, got))
  except WouldBlock as ex:
    return FAIL("stop-would-hang", "%s: %s" % (what, ex))
  except AssertionError as ex:
    return FAIL("assertion-in-fabric", "%s: %r" % (what, ex))
  except Exception as ex:
    return FAIL("raised:" + type(ex).__name__, "%s: %r" % (what, ex))
  return PASS(nontrivial=any(o in (0, 1, 6) for o in (o1, o2, o3, o4)))


Family(globals(), "h_lifecycle", params=[("pre_state", 0, 2), ("o1", 0, 6), ("o2", 0, 6), ("o3", 0, 6), ("o4", 0, 6), ("jpos", 0, 1)],
       pre=pre, case=case, split=["pre_state"], tiers=LIM)


def pre_halt(v, lim):
  return True


def case_halt(np_, deco):
  """a started active object, woken after fabric.stop(), clears its own flag and dispatches nothing"""
  hsm, ao = fabric.install()
  from miros.event import Event, signals, return_status
  log = []

  def only(chart, e):
    if e.signal in (signals.ENTRY_SIGNAL, signals.INIT_SIGNAL, signals.EXIT_SIGNAL):
      return return_status.HANDLED
    if e.signal_name.startswith("W"):
      log.append(e.signal_name)
      return return_status.HANDLED
    chart.temp.fun = chart.top
    return return_status.SUPER
  st = hsm.spy_on(only) if deco else only
  a = ao.ActiveObject(name="a")
  a.start_at(st)
  what = "np=%d deco=%d" % (np_, deco)
  a.fabric.stop()
  if fabric.fabric_threads():
    return FAIL("thread-alive-after-stop", what)
  for i in range(np_ + 1):
    a.post_fifo(Event(signal="W%d" % i))
  try:
    a.thread.join()     # runs the real run_event body from inside its loop: it is woken by the token
  except WouldBlock:
    return FAIL("active-object-not-halted", "%s: run_event went back to waiting" % what)
  if log:
    return FAIL("dispatch-after-fabric-stop", "%s: dispatched %s" % (what, log))
  if a.activeobject_task_event.is_set():
    return FAIL("own-flag-not-cleared", what)
  return PASS()


Family(globals(), "h_halt", params=[("np", 0, 2), ("deco", 0, 1)], pre=pre_halt, case=case_halt, split=[], tiers=LIM)


def set_tier(tier):
  set_tier_all(globals(), tier)


def jobs(tier):
  return jobs_all(globals(), tier)


# ---- E2 part: concurrent start() calls (two active objects started from different threads) -----------------------------------------
def e2_scenarios(tier):
  two = dict(scripts=(("start",), ("start",)), pool=3)
  alive = dict(scripts=(("start", "is_alive"), ("start",)), pool=3)
  three = dict(scripts=(("start",), ("start",), ("start",)), pool=4)
  startstop = dict(scripts=(("start", "stop"),), pool=2)        # one caller: start(), then stop() against the two delivery threads it made
  # ... and with a publication still waiting in the fifo queue when stop() is called (the delivery thread is busy, not asleep)
  busy = dict(scripts=(("start", "stop"),), pool=2, queued=(1, 0))
  if tier == "quick":
    return [(two, 30), (startstop, 26), (busy, 30)]
  return [(two, 30), (startstop, 30), (busy, 34), (dict(scripts=(("start", "stop"),), pool=2, queued=(1, 1)), 36), (alive, 40), (three, 40)]


def e2_specs(tier):
  out = []
  to = 900 if tier == "quick" else 3600
  for (kw, K) in e2_scenarios(tier):
    out.append(dict(scenario="fabric_start", kwargs=kw, kind="reach", K=K, pred="callers_done", timeout=to))
    out.append(dict(scenario="fabric_start", kwargs=kw, kind="safety", K=K, pred="fabric_start_bad", timeout=to, replay="fabric_start_replay"))
    out.append(dict(scenario="fabric_start", kwargs=kw, kind="deadlock", K=K, pred="callers_open", timeout=to, replay="fabric_start_replay"))
    out.append(dict(scenario="fabric_start", kwargs=kw, kind="adequacy", K=K, timeout=to))
  return out


def e2_signature(spec, r):
  real = r["replay"]["real"]
  if spec["kind"] == "deadlock":
    n = len(spec["kwargs"]["scripts"])
    return ("start-blocked-for-ever", "callers finished %s of %d; schedule: %s" % (real["callers_finished"], n, r["trace"]), len(real["callers_finished"]) < n)
  if real["errors"]:
    return ("start-raised:" + "+".join(sorted(set(v.split(":")[0] for v in real["errors"].values()))), "%s; schedule: %s" % (real["errors"], r["trace"]), True)
  kinds = [k for (_i, k) in real["threads_running"]]
  dup = len(set(kinds)) < len(kinds)
  held = set(v for v in real["handles_held"].values() if v is not None)
  lost = [i for (i, _k) in real["threads_running"] if i not in held]
  return ("two-delivery-threads:concurrent-start" if dup else "delivery-thread-handle-lost:concurrent-start",
          "concurrent start() calls on the real fabric: threads running %s, handles held %s; schedule: %s" % (real["threads_running"], real["handles_held"], r["trace"]),
          dup or bool(lost))


def solver_part(tier, known):
  from vf.e2 import propbase, harness
  FUNCTIONS.extend(x for x in propbase.functions_of("fabric_start", e2_scenarios(tier)[0][0]) if x not in FUNCTIONS)
  n = 6 if tier == "quick" else 20
  out = propbase.run(e2_specs(tier), known, e2_signature, jobs=8,
                     differential=lambda: harness.fabric_start_differential(dict(scripts=(("start",), ("start", "stop")), pool=3), n, seed=29))
  out["coverage"]["e2_bounds"] = [{"kwargs": k, "K": K} for k, K in e2_scenarios(tier)]
  return out
