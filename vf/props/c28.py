"""C28 Every statement using a thread-safe attribute releases its lock (DESIGN 6/C28)."""
import linecache
from vf.core import PASS, FAIL
from vf.family import Family, set_tier_all, jobs_all

PROP = "C28"
PART = {}
FUNCTIONS = ["miros.thread_safe_attributes.ThreadSafeAttribute.__get__", "miros.thread_safe_attributes.ThreadSafeAttribute.__set__",
             "miros.thread_safe_attributes.ThreadSafeAttribute.is_not_atomic", "miros.thread_safe_attributes.ThreadSafeAttribute.request_for_lock"]
ASSUMPTIONS = [
  "each statement is generated as source text, registered with linecache and compiled under its own file name, so the real frame inspection "
  "(inspect.getframeinfo) sees exactly that text; it is executed with a real instance in its namespace",
  "single thread; values are small ints chosen so that no statement raises (no '@', no division by zero)",
  "'holds no lock' is read from the descriptor's RLock (_is_owned) in the calling thread; the replay also probes the lock from a second thread",
]
OUTSIDE = ["statements that raise an exception half-way", "statements spread over several source lines", "operator '@'",
           "E1: variable names other than v / w / the pool %s (the regular-language query ranges over arbitrary identifiers)" % ["ax", "x", "xa", "a_x", "x1"]]
EXPLANATION = ("Bounded symbolic execution (CrossHair/z3) over a grammar of statements that read or write a thread-safe attribute A=o.x: v = A, v = A op w, "
               "v = w op A, if A cmp w:, while w cmp A:, return A cmp w, f(A), f(k=A), v op= A, A = w, A op= w, A op= A, A op= A op w, "
               "'_, _lock = A', and statements using two attributes of one object (A op= B, v = A op B, A = B, if A cmp B:, v op= A op B, A op= B op w, "
               "B op= A, f(A, B); once and twice in a loop on the same source line), with op over the binary operators, cmp over the comparison operators and 0-2 spaces around operators (symbolic indices). "
               "Oracle: after the statement the calling thread does not own the attribute's lock. solver_part adds an unbounded regular-language "
               "query (z3 sequence theory): the patterns actually used by is_not_atomic (captured from the running code) intersected with the "
               "language of read-only statement forms with arbitrary identifiers, operands and spacing must be empty.")
RULE = "one case per (statement form, operator, spacing); non-trivial = the statement contains an operator followed by '='"
LIM = {"quick": dict(SP=1), "thorough": dict(SP=2)}
BIN = ["+", "-", "*", "/", "//", "%", "**", "<<", ">>", "&", "|", "^"]
CMP = ["==", "!=", "<", "<=", ">", ">=", "is", "is not"]
FORMS = ["v=A", "v=A(op)w", "v=w(op)A", "if A(cmp)w:", "while w(cmp)A:", "return A(cmp)w", "f(A)", "f(k=A)", "v(op)=A", "A=w", "A(op)=w", "A(op)=A",
         "A(op)=A(op)w", "_, _lock = A"]


def bounds(tier):
  d = dict(LIM[tier]); d["meaning"] = "SP = max spaces around operators; forms=%s; binary ops=%s; comparisons=%s" % (FORMS, BIN, CMP)
  return d


def pre(v, lim):
  form, op, sp = v["form"], v["op"], v["sp"]
  if sp > lim["SP"]:
    return False
  if form in (0, 6, 7, 9):
    if op != 0:
      return False
  elif form in (3, 4, 5):
    if op >= len(CMP):
      return False
  elif form == 13:
    if op != 0 or sp == 0:
      return False
  return True


def statement(form, op, sp):
  s = " " * sp
  A = "o.x"
  b = BIN[op] if op < len(BIN) else None
  if form in (3, 4, 5):
    c = CMP[op]
    cs = " " + c + " " if c.startswith("is") else s + c + s
  if form == 0: return "v%s=%s%s" % (s, s, A)
  if form == 1: return "v%s=%s%s%s%s%sw" % (s, s, A, s, b, s)
  if form == 2: return "v%s=%sw%s%s%s%s" % (s, s, s, b, s, A)
  if form == 3: return "if %s%sw:\n  pass" % (A, cs)
  if form == 4: return "while w%s%s:\n  break" % (cs, A)
  if form == 5: return "def g():\n  return %s%sw\ng()" % (A, cs)
  if form == 6: return "f(%s)" % A
  if form == 7: return "f(k%s=%s%s)" % (s, s, A)
  if form == 8: return "v%s%s=%s%s" % (s, b, s, A)
  if form == 9: return "%s%s=%sw" % (A, s, s)
  if form == 10: return "%s%s%s=%sw" % (A, s, b, s)
  if form == 11: return "%s%s%s=%s%s" % (A, s, b, s, A)
  if form == 12: return "%s%s%s=%s%s%s%s%sw" % (A, s, b, s, A, s, b, s)
  return "_, _lock%s=%s%s" % (s, s, A)


_N = [0]


def run_statement(text, ns):
  _N[0] += 1
  fname = "<c28-statement-%d>" % _N[0]
  linecache.cache[fname] = (len(text), None, (text + "\n").splitlines(True), fname)
  exec(compile(text + "\n", fname, "exec"), ns)


def case(form, op, sp):
  from miros.thread_safe_attributes import MetaThreadSafeAttributes

  class Thing(metaclass=MetaThreadSafeAttributes):
    _attributes = ["x"]

  o = Thing()
  desc = Thing.__dict__["x"]
  ns = {"o": o, "w": 2, "v": 5, "f": (lambda *a, **k: None)}
  text = statement(form, op, sp)
  try:
    run_statement("o.x = 7", ns)
    if desc._lock._is_owned():
      return FAIL("lock-kept-after:plain-assignment", "o.x = 7")
    run_statement(text, ns)
  except Exception as ex:
    return FAIL("statement-raised:%s:%s" % (FORMS[form], type(ex).__name__), "%r: %r" % (text, ex))
  if desc._lock._is_owned():
    kind = "comparison" if form in (3, 4, 5) else ("augmented-assignment-to-another-variable" if form == 8 else FORMS[form])
    return FAIL("lock-kept-after:" + kind, "statement %r leaves the attribute's lock held by the calling thread" % text)
  # the attribute is still usable and holds the value Python semantics give
  try:
    val = o.x
  except Exception as ex:
    return FAIL("attribute-unusable-after:" + FORMS[form], "%r: %r" % (text, ex))
  ref = {"x": 2, "w": 3, "v": 7}
  if form in (9, 10, 11, 12):
    class R: pass
    r = R(); r.x = 7
    exec(text.replace("o.x", "r.x"), {"r": r, "w": 2, "v": 5})
    if val != r.x:
      return FAIL("wrong-value-after:" + FORMS[form], "%r: o.x is %r expected %r" % (text, val, r.x))
  return PASS(nontrivial=("=" in text.replace("==", "")) and form not in (0, 9))


Family(globals(), "h_statement", params=[("form", 0, 13), ("op", 0, 11), ("sp", 0, 2)], pre=pre, case=case, split=[], tiers=LIM)


# ---- the other variable of the statement is named like the attribute (ends with it, starts with it, is it) -----------------------------------
VNAMES = ["ax", "x", "xa", "a_x", "x1"]


def pre_named(v, lim):
  return v["form"] in (1, 2, 7, 8) and pre(dict(v), lim) and v["sp"] <= 1


def case_named(form, op, sp, vn):
  """the forms that have a second variable (v = A op w, v = w op A, f(k=A), v op= A), with that variable called VNAMES[vn]"""
  from miros.thread_safe_attributes import MetaThreadSafeAttributes
  import re as _re

  class Thing(metaclass=MetaThreadSafeAttributes):
    _attributes = ["x"]
  o = Thing()
  desc = Thing.__dict__["x"]
  name = VNAMES[vn]
  text = _re.sub(r"\b(v|k)\b", name, statement(form, op, sp))
  ns = {"o": o, "w": 2, name: 5, "f": (lambda *a, **k: None)}
  try:
    run_statement("o.x = 7", ns)
    run_statement(text, ns)
  except Exception as ex:
    return FAIL("statement-raised:%s:%s" % (FORMS[form], type(ex).__name__), "%r: %r" % (text, ex))
  if desc._lock._is_owned():
    return FAIL("lock-kept-after:variable-named-like-the-attribute", "statement %r (another variable called %r, attribute x) leaves the attribute's lock held" % (text, name))
  if o.x != 7:
    return FAIL("wrong-value-after:variable-named-like-the-attribute", "%r: o.x is %r expected 7" % (text, o.x))
  return PASS(nontrivial=True)


Family(globals(), "h_named", params=[("form", 0, 13), ("op", 0, 11), ("sp", 0, 2), ("vn", 0, len(VNAMES) - 1)], pre=pre_named, case=case_named, split=[], tiers=LIM)


# ---- statements that use two thread-safe attributes of the same object ---------------------------------------------
FORMS2 = ["A(op)=B", "v=A(op)B", "A=B", "if A(cmp)B:", "v(op)=A(op)B", "A(op)=B(op)w", "B(op)=A", "f(A, B)"]


def pre2(v, lim):
  form, op, sp = v["form"], v["op"], v["sp"]
  if sp > lim["SP"]:
    return False
  if form in (2, 7):
    return op == 0
  if form == 3:
    return op < len(CMP)
  return True


def statement2(form, op, sp):
  s = " " * sp
  A, Bn = "o.x", "o.y"
  b = BIN[op] if op < len(BIN) else None
  if form == 0: return "%s%s%s=%s%s" % (A, s, b, s, Bn)
  if form == 1: return "v%s=%s%s%s%s%s%s" % (s, s, A, s, b, s, Bn)
  if form == 2: return "%s%s=%s%s" % (A, s, s, Bn)
  if form == 3:
    c = CMP[op]
    cs = " " + c + " " if c.startswith("is") else s + c + s
    return "if %s%s%s:\n  pass" % (A, cs, Bn)
  if form == 4: return "v%s%s=%s%s%s%s%s%s" % (s, b, s, A, s, b, s, Bn)
  if form == 5: return "%s%s%s=%s%s%s%s%sw" % (A, s, b, s, Bn, s, b, s)
  if form == 6: return "%s%s%s=%s%s" % (Bn, s, b, s, A)
  return "f(%s,%s%s)" % (A, s, Bn)


def case2(form, op, sp, rep):
  from miros.thread_safe_attributes import MetaThreadSafeAttributes

  class Thing(metaclass=MetaThreadSafeAttributes):
    _attributes = ["x", "y"]

  o = Thing()
  dx, dy = Thing.__dict__["x"], Thing.__dict__["y"]
  ns = {"o": o, "w": 2, "v": 5, "f": (lambda *a, **k: None)}
  text = statement2(form, op, sp)
  body = text if not rep else "for _i in range(2):\n  " + text.replace("\n", "\n  ")
  try:
    run_statement("o.x = 7", ns)
    run_statement("o.y = 3", ns)
    run_statement(body, ns)
  except Exception as ex:
    return FAIL("statement-raised:%s:%s" % (FORMS2[form], type(ex).__name__), "%r: %r" % (body, ex))
  held = [n for n, d in (("x", dx), ("y", dy)) if d._lock._is_owned()]
  if held:
    return FAIL("lock-kept-after:two-attributes:" + FORMS2[form], "statement %r leaves the lock of attribute(s) %s held by the calling thread" % (body, held))
  class R: pass
  r = R(); r.x = 7; r.y = 3
  exec(body.replace("o.", "r."), {"r": r, "w": 2, "v": 5, "f": (lambda *a, **k: None)})
  try:
    got = (o.x, o.y)
  except Exception as ex:
    return FAIL("attribute-unusable-after:" + FORMS2[form], "%r: %r" % (body, ex))
  if got != (r.x, r.y):
    return FAIL("wrong-value-after:two-attributes:" + FORMS2[form], "%r: (o.x, o.y) = %r expected %r" % (body, got, (r.x, r.y)))
  return PASS(nontrivial=True)


Family(globals(), "h_two_attributes", params=[("form", 0, 7), ("op", 0, 11), ("sp", 0, 2), ("rep", 0, 1)], pre=pre2, case=case2, split=[], tiers=LIM)


def set_tier(tier):
  set_tier_all(globals(), tier)


def jobs(tier):
  return jobs_all(globals(), tier)


# ---- unbounded part: regular-language queries (z3 sequence theory) -------------------------------------
def captured_patterns():
  """the patterns the running code hands to re.search when it classifies a source line of attribute 'x'"""
  import miros.thread_safe_attributes as tsa
  import re as real_re
  seen = []

  class Recorder:
    def __getattr__(self, n):
      return getattr(real_re, n)

    def search(self, pattern, string, *a):
      seen.append(pattern)
      return real_re.search(pattern, string, *a)

  class Thing(metaclass=tsa.MetaThreadSafeAttributes):
    _attributes = ["x"]

  desc = Thing.__dict__["x"]
  saved = tsa.re
  tsa.re = Recorder()
  try:
    desc.is_not_atomic("probe line")
  finally:
    tsa.re = saved
  return seen


def solver_part(tier, known):
  import time
  import z3
  from vf import rez3
  t0 = time.time()
  out = {"violations": [], "inconclusive": [], "coverage": {}, "samples": [], "evaluations": 0, "distinct_nontrivial": 0}
  pats = captured_patterns()
  if not pats:
    out["inconclusive"].append("is_not_atomic made no re.search call: nothing to encode")
    return out
  langs = []
  for p in pats:
    try:
      bad = rez3.validate(p, "ab =+-*/<>%@^&|.,!:x1 _(", n=500 if tier == "quick" else 2000)
    except NotImplementedError as ex:
      out["inconclusive"].append("pattern %r uses a construct the translator does not know: %s" % (p, ex))
      return out
    if bad:
      out["inconclusive"].append("translation of %r disagrees with re.search on %d generated strings" % (p, bad))
      return out
    langs.append(rez3.search_language(p))
  # the code and-s its searches together (is_not_atomic &= ...): non-atomic iff every search matches
  Re = z3.Re
  U, C, Star, Plus = z3.Union, z3.Concat, z3.Star, z3.Plus
  letter = U(z3.Range("a", "z"), z3.Range("A", "Z"), Re("_"))
  ident = C(letter, Star(U(letter, z3.Range("0", "9"))))
  digits = Plus(z3.Range("0", "9"))
  ws = Star(Re(" "))
  objpath = C(ident, Star(C(Re("."), ident)))
  A = C(objpath, Re(".x"))
  other_name = U(C(U(z3.Range("a", "w"), z3.Range("y", "z"), z3.Range("A", "Z"), Re("_")), Star(U(letter, z3.Range("0", "9")))),
                 C(Re("x"), Plus(U(letter, z3.Range("0", "9")))))
  operand = U(ident, digits, A, C(objpath, Re("."), other_name))

  def alt(xs):
    return U(*[Re(x) for x in xs])
  CMPS = alt(["==", "!=", "<", ">", "<=", ">=", " is ", " is not ", " in ", " not in "])
  BINS = alt(BIN + ["@"])
  AUGS = alt([b + "=" for b in BIN + ["@"]])
  tail = Star(C(ws, U(CMPS, BINS), ws, operand))
  reads = U(
    C(ident, ws, Re("="), ws, A, tail),                                   # v = A [op operand]*
    C(ident, ws, Re("="), ws, operand, ws, U(CMPS, BINS), ws, A, tail),   # v = w op A ...
    C(alt(["if ", "while "]), U(C(A, ws, CMPS, ws, operand), C(operand, ws, CMPS, ws, A)), Re(":")),
    C(alt(["return ", "assert "]), U(C(A, ws, CMPS, ws, operand), C(operand, ws, CMPS, ws, A))),
    C(ident, Re("("), U(Re(""), C(ident, ws, Re("="), ws)), A, Re(")")),   # f(A), f(k=A)
    C(U(ident, C(objpath, Re("."), other_name), C(ident, Re("["), operand, Re("]"))), ws, AUGS, ws, A, tail),   # v op= A ; o.y op= A ; d[k] op= A
    C(Re("_, _lock"), Plus(Re(" ")), Re("="), ws, A),
  )
  augs_to_attr = C(A, ws, AUGS, ws, U(operand, C(operand, ws, BINS, ws, operand)))
  s = z3.String("s")
  queries = []

  def ask(name, constraints, expect_unsat_means):
    sol = z3.Solver()
    sol.set("timeout", 120000 if tier == "quick" else 600000)
    sol.add(*constraints)
    t1 = time.time()
    r = str(sol.check())
    wit = sol.model()[s].as_string() if r == "sat" else None
    queries.append({"query": name, "result": r, "seconds": round(time.time() - t1, 2), "witness": wit, "unsat_means": expect_unsat_means})
    return r, wit

  non_atomic = [z3.InRe(s, L) for L in langs]
  # vacuity guards: each side of the intersections is inhabited
  g1, _ = ask("guard: the read-only statement language is inhabited", [z3.InRe(s, reads)], "(must be sat)")
  g2, _ = ask("guard: some string is classified non-atomic", non_atomic, "(must be sat)")
  g3, _ = ask("guard: the augmented-assignment language is inhabited", [z3.InRe(s, augs_to_attr)], "(must be sat)")
  if (g1, g2, g3) != ("sat", "sat", "sat"):
    out["inconclusive"].append("vacuity guard of the regular-language queries failed: %s" % ((g1, g2, g3),))
  r1, w1 = ask("read-only statement classified as augmented assignment (lock would be kept)", [z3.InRe(s, reads)] + non_atomic,
               "no read-only statement of the grammar, of any length, is classified non-atomic")
  r2, w2 = ask("augmented assignment to the attribute classified atomic (update would not be atomic)",
               [z3.InRe(s, augs_to_attr), z3.Not(z3.And(*non_atomic))],
               "every augmented assignment to the attribute, of any length, is classified non-atomic")
  out["coverage"] = {"regular_language_queries": queries, "patterns_captured_from_running_code": pats,
                     "translation_validated_on_strings": 500 if tier == "quick" else 2000}
  out["evaluations"] = len(queries)
  out["samples"] = [{"query": q["query"], "result": q["result"]} for q in queries]
  for (r, w, what) in ((r1, w1, "read-only"), (r2, w2, "augmented")):
    if r == "unknown":
      out["inconclusive"].append("z3 answered unknown for the %s query" % what)
  if r1 == "sat":
    # replay the witness on the real code
    text = w1 + ("\n  break" if w1.startswith("while ") else ("\n  pass" if w1.rstrip().endswith(":") else ""))
    if w1.startswith("return "):
      text = "def g_():\n  " + w1 + "\ng_()"
    res = replay_text(text)
    if res == "lock-kept":
      out["violations"].append({"harness": "regular-language", "case": [w1], "sig": "lock-kept-after:read-only-statement:" + ("comparison" if ("<=" in w1 or ">=" in w1) else "other"),
                                "detail": "z3 witness %r is a read-only statement; executed on the real code it leaves the lock held" % w1,
                                "replay_extra": {"statement": text}})
    else:
      out["inconclusive"].append("z3 witness %r for the read-only query did not replay as a lock leak (%s)" % (w1, res))
  if r2 == "sat":
    out["violations"].append({"harness": "regular-language", "case": [w2], "sig": "augmented-assignment-classified-atomic",
                              "detail": "z3 witness %r: is_not_atomic(%r) = %r" % (w2, w2, _classify(w2))}) if not _classify(w2) else \
      out["inconclusive"].append("z3 witness %r for the augmented query is classified non-atomic by the real code" % w2)
  out["solver_s"] = round(time.time() - t0, 2)
  return out


def _classify(line):
  from miros.thread_safe_attributes import MetaThreadSafeAttributes

  class Thing(metaclass=MetaThreadSafeAttributes):
    _attributes = ["x"]
  return Thing.__dict__["x"].is_not_atomic(line)


class _Flex(int):
  def __call__(self, *a, **k):
    return 1

  def __getattr__(self, n):
    return _Flex(1)


class _Names(dict):
  def __init__(self, o):
    super().__init__()
    self["o"] = o

  def __missing__(self, k):
    if k in ("__builtins__",):
      raise KeyError(k)
    return _Flex(1)


def replay_text(text):
  """execute a statement text with a real instance behind every object path that ends in .x"""
  from miros.thread_safe_attributes import MetaThreadSafeAttributes
  import re as _re

  class Thing(metaclass=MetaThreadSafeAttributes):
    _attributes = ["x"]
  o = Thing()
  # every '<path>.x' in the witness is rewritten to 'o.x' (the witness's object path is an arbitrary identifier chain)
  text2 = _re.sub(r"[A-Za-z_][A-Za-z_0-9]*(\.[A-Za-z_][A-Za-z_0-9]*)*\.x\b", "o.x", text)
  _N[0] += 1
  fname = "<c28-witness-%d>" % _N[0]
  linecache.cache[fname] = (len(text2), None, (text2 + "\n").splitlines(True), fname)
  try:
    exec(compile(text2 + "\n", fname, "exec"), {}, _Names(o))
  except Exception as ex:
    if not Thing.__dict__["x"]._lock._is_owned():
      return "raised %r" % (ex,)
  return "lock-kept" if Thing.__dict__["x"]._lock._is_owned() else "lock-free"


def case_text(w1):
  """replay of a z3 witness: execute the statement text on the real code"""
  text = w1 + ("\n  break" if w1.startswith("while ") else ("\n  pass" if w1.rstrip().endswith(":") else ""))
  if w1.startswith("return "):
    text = "def g_():\n  " + w1 + "\ng_()"
  res = replay_text(text)
  if res == "lock-kept":
    return FAIL("lock-kept-after:read-only-statement", "statement %r leaves the lock held" % w1)
  if not _classify(w1) and "=" in w1 and ".x" in w1.split("=")[0]:
    return FAIL("augmented-assignment-classified-atomic", w1)
  return PASS()


CASES["regular-language"] = case_text
