"""C03 start_at enters the enclosing states outside-in and follows initial transitions (DESIGN 6/C03)."""
from vf.core import PASS, FAIL
from vf.family import Family, set_tier_all, jobs_all
from vf import charts

PROP = "C03"
PART = {}
FUNCTIONS = ["miros.hsm.HsmEventProcessor.start_at", "miros.hsm.HsmEventProcessor.init", "miros.hsm.HsmEventProcessor.trans"]
ASSUMPTIONS = ["prior: the processor object is fresh, or was already started (in another branch / at the outermost enclosing state / at the end of the init chain) before this start_at",
               "well-formed charts only (malformed initial transitions are C24)",
               "handlers follow the documented shape; probes answered by naming the parent"]
OUTSIDE = ["start depth + init levels > N", "more than three consecutive initial transitions"]
EXPLANATION = ("Bounded symbolic execution (CrossHair/z3) of the real start_at/init on a chain of symbolic depth d with up to three "
               "initial-transition hops of symbolic length below the start state. Oracle: entries of the enclosing states outermost "
               "first, entry and init of the start state, per hop the intermediate entries in order and init; every action exactly "
               "once, no exit, chart rests in the last init target (state.fun is temp.fun).")
RULE = "one case per (d, j1, j2, j3, implicit-action mask, what the processor object did before); non-trivial = at least one initial transition or an enclosing state"
LIM = {"quick": dict(N=8, hxs=(0, 3, 7)), "thorough": dict(N=12, hxs=(0, 1, 2, 3, 4, 5, 6, 7))}


def bounds(tier):
  d = dict(LIM[tier])
  d["meaning"] = "N = max of d + j1 + j2 + j3 (start depth plus init levels)"
  return d


def pre(v, lim):
  if (v["j2"] > 0 and v["j1"] == 0) or (v["j3"] > 0 and v["j2"] == 0):
    return False
  if v["d"] + v["j1"] + v["j2"] + v["j3"] > lim["N"]:
    return False
  if v["hx"] not in lim["hxs"]:
    return False
  return True


PRIORS = ["fresh processor", "already started in another branch", "already started at the outermost enclosing state", "already started at the init target's own chain end"]


def case(d, j1, j2, j3, hx, prior):
  from miros.hsm import HsmEventProcessor
  parent = [i - 1 for i in range(d)]
  init = [-1] * d
  start = d - 1
  p = start
  for hop in (j1, j2, j3):
    if hop <= 0:
      continue
    q = p
    for _ in range(hop):
      parent.append(q)
      q = len(parent) - 1
      init.append(-1)
    init[p] = q
    p = q
  last = p
  parent.append(-1); init.append(-1)
  elsewhere = len(parent) - 1
  ch = charts.Chart(parent, [charts.R_PASS] * len(parent), init, hx=hx)
  c = HsmEventProcessor()
  exp, rest = ch.oracle_start(start)
  if prior:
    # the same processor object was started before (start_at is legal on any processor, whatever it did before)
    c.start_at(ch.hs[{1: elsewhere, 2: 0, 3: last}[prior]])
    del ch.log[:]
  try:
    c.start_at(ch.hs[start])
  except Exception as ex:
    return FAIL("start-raised:" + type(ex).__name__, "%r log=%s" % (ex, ch.log))
  if any(x[0] == "ex" for x in ch.log):
    return FAIL("exit-during-start", "log=%s" % ch.log)
  if ch.log != exp:
    return FAIL("start-actions", "parent=%s init=%s log=%s expected=%s" % (parent, init, ch.log, exp))
  if c.state.fun is not ch.hs[rest] or c.temp.fun is not ch.hs[rest]:
    return FAIL("resting-state", "rests in %s expected s%d" % (getattr(c.state.fun, "__name__", c.state.fun), rest))
  return PASS(nontrivial=(d > 1 or j1 > 0))


Family(globals(), "h_start", params=[("d", 1, 12), ("j1", 0, 11), ("j2", 0, 10), ("j3", 0, 9), ("hx", 0, 7), ("prior", 0, 3)],
       pre=pre, case=case, split=["hx"], tiers=LIM)


def set_tier(tier):
  set_tier_all(globals(), tier)


def jobs(tier):
  return jobs_all(globals(), tier)
