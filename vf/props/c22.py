"""C22 is_in and child_state answer from the active state path and change nothing (DESIGN 6/C22)."""
from vf.core import PASS, FAIL
from vf.family import Family, set_tier_all, jobs_all
from vf import charts, hosts

PROP = "C22"
PART = {}
FUNCTIONS = ["miros.hsm.HsmEventProcessor.is_in", "miros.hsm.HsmEventProcessor.child_state", "miros.hsm.HsmEventProcessor.start_at/dispatch"]
ASSUMPTIONS = ["the resting state is reached through the real start_at (and optionally one real step)",
               "state_name after a query on a decorated chart is not asserted (spy_on rewrites it on every probe; C23 speaks of 'after start_at and after every step')",
               "hosts: plain processor with un-decorated states, instrumented processor with decorated states"]
OUTSIDE = ["charts larger than N"]
EXPLANATION = ("Bounded symbolic execution (CrossHair/z3) of is_in/child_state on the Y-with-tail family: resting state reached by start_at or by "
               "start_at plus one step, query argument X ranging over every state and top. Oracle: is_in(X) iff X is on the ancestor list of the "
               "current state (inclusive; top always); child_state(P) is the element just below P on that list (the current state itself when P "
               "is current) and fails (AssertionError) when P does not enclose the current state; afterwards state.fun and temp.fun are what "
               "they were and a following step produces the same action log and resting state as a twin run without the query.")
RULE = "one case per (chart tuple, how the resting state is reached, query kind, query argument, host); non-trivial = X is a proper ancestor or a non-ancestor"
LIM = {"quick": dict(N=4), "thorough": dict(N=6)}


def bounds(tier):
  d = dict(LIM[tier]); d["meaning"] = "N = max states l+a+b+j1; via 0 start_at / 1 start_at+step; q 0 is_in / 1 child_state; x = state index or N (= top)"
  return d


def pre(v, lim):
  n = v["l"] + v["a"] + v["b"] + v["j1"]
  if n > lim["N"]:
    return False
  if not (v["k"] < v["l"] + v["a"] and v["tsel"] < v["l"] + v["a"] + v["b"]):
    return False
  if v["x"] > n:
    return False
  return True


def _setup(l, a, b, k, tsel, j1, pm, via, host):
  parent, react, init, cur, S, T = charts.y_family(l, a, b, k, tsel, j1, 0, 0, pm)
  c, _, _ = hosts.make(host)
  ch = charts.Chart(parent, react, init, decorate=(host == 1), fresh=False)
  c.start_at(ch.hs[cur])
  _, rest = ch.oracle_start(cur)
  if via:
    hosts.step(c, host, ch.Event(signal=ch.SIG))
    _, rest, _ = ch.oracle_dispatch(rest)
  return ch, c, rest


def case(l, a, b, k, tsel, j1, pm, via, q, x, host):
  what = "host=%d via=%d q=%s x=%d" % (host, via, "child_state" if q else "is_in", x)
  try:
    ch, c, rest = _setup(l, a, b, k, tsel, j1, pm, via, host)
    ch2, c2, rest_b = _setup(l, a, b, k, tsel, j1, pm, via, host)   # twin without the query
  except Exception as ex:
    return FAIL("setup-raised:" + type(ex).__name__, "%s %r" % (what, ex))
  n = len(ch.parent)
  if c.state.fun is not ch.hs[rest]:
    return FAIL("setup-resting-state", what)
  path = charts.anc(ch.parent, rest)
  X = c.top if x == n else ch.hs[x]
  sf, tf = c.state.fun, c.temp.fun
  del ch.log[:]
  if q == 0:
    want = True if x == n else (x in path)
    try:
      got = c.is_in(X)
    except Exception as ex:
      return FAIL("is_in-raised:" + type(ex).__name__, "%s %r" % (what, ex))
    if got is not want:
      return FAIL("is_in-answer", "%s: %r expected %r (active path %s)" % (what, got, want, path))
  else:
    if x == n:
      want = path[-1]
    elif x in path:
      i = path.index(x)
      want = path[i - 1] if i > 0 else x
    else:
      want = None
    try:
      got = c.child_state(X)
    except AssertionError:
      got = "failed"
    except Exception as ex:
      return FAIL("child_state-raised:" + type(ex).__name__, "%s %r" % (what, ex))
    if want is None:
      if got != "failed":
        return FAIL("child_state-does-not-fail", "%s: returned %s" % (what, getattr(got, "__name__", got)))
    elif got == "failed" or got is not ch.hs[want]:
      return FAIL("child_state-answer", "%s: %s expected s%d (active path %s)" % (what, getattr(got, "__name__", got), want, path))
  if ch.log:
    return FAIL("query-ran-actions", "%s: %s" % (what, ch.log))
  if c.state.fun is not sf or c.temp.fun is not tf:
    return FAIL("query-changed-state", "%s: state.fun/temp.fun changed" % what)
  del ch2.log[:]
  try:
    hosts.step(c, host, ch.Event(signal=ch.SIG))
    hosts.step(c2, host, ch2.Event(signal=ch2.SIG))
  except Exception as ex:
    return FAIL("later-step-raised:" + type(ex).__name__, "%s %r" % (what, ex))
  if ch.log != ch2.log or ch.hs.index(c.state.fun) != ch2.hs.index(c2.state.fun):
    return FAIL("later-behaviour-differs", "%s: %s vs %s" % (what, ch.log, ch2.log))
  exp, rest2, _ = ch.oracle_dispatch(rest)
  if ch.log != exp:
    return FAIL("later-step-actions", "%s: %s expected %s" % (what, ch.log, exp))
  return PASS(nontrivial=(x != rest))


Family(globals(), "h_query", params=[("l", 0, 2), ("a", 1, 3), ("b", 0, 3), ("k", 0, 4), ("tsel", 0, 7), ("j1", 0, 3), ("pm", 0, 1),
                                     ("via", 0, 1), ("q", 0, 1), ("x", 0, 7), ("host", 0, 1)],
       pre=pre, case=case, split=["via", "q", "host"], tiers=LIM)


def set_tier(tier):
  set_tier_all(globals(), tier)


def jobs(tier):
  return jobs_all(globals(), tier)
