"""C23 state_name and state_fn always describe the current state (DESIGN 6/C23)."""
from vf.core import PASS, FAIL
from vf.family import Family, set_tier_all, jobs_all
from vf import hosted, hosts

PROP = "C23"
PART = {}
FUNCTIONS = ["miros.hsm.HsmEventProcessor.start_at/dispatch (end-of-step bookkeeping)", "miros.hsm.spy_on (bookkeeping)",
             "miros.hsm.HsmWithQueues.current_state", "instrumented/queued wrappers of start_at and dispatch",
             "miros.activeobject.ActiveObject.start_at"]
ASSUMPTIONS = ["threads of ActiveObject hosts are recorded, never run; steps are taken with next_rtc",
               "all states decorated or none"]
OUTSIDE = ["charts larger than N", "mixed decoration"]
EXPLANATION = ("Bounded symbolic execution (CrossHair/z3) of start_at and one step (transition, internally handled, or ignored) on every host "
               "x decoration over the Y-with-tail chart family. Oracle: state_name is the generated name of the oracle's resting state; "
               "state_fn is that state's handler or the function it decorates; current_state() of an instrumented queued chart returns the same name.")
RULE = "one case per (chart tuple, reaction kind, host, decoration); non-trivial = the step changed the state"
LIM = {"quick": dict(N=4), "thorough": dict(N=6)}


def bounds(tier):
  d = dict(LIM[tier]); d["meaning"] = "N = max states l+a+b+j1; rk 0 transition/1 handled/2 ignored; hosts=%s; deco 0/1" % hosts.HOSTS
  return d


def pre(v, lim):
  if v["l"] + v["a"] + v["b"] + v["j1"] > lim["N"]:
    return False
  if not (v["k"] < v["l"] + v["a"] and v["tsel"] < v["l"] + v["a"] + v["b"]):
    return False
  if v["rk"] != 0 and (v["tsel"] != 0 or v["j1"] != 0):
    return False      # target and init tail are irrelevant when no transition is taken
  return True


def _check(what, when, o, ch, rest, host):
  name = ch.names[rest]
  if o.state_name != name:
    return FAIL("state_name-" + when, "%s: state_name %r expected %r" % (what, o.state_name, name))
  if o.state_fn is not ch.raw[rest] and o.state_fn is not ch.hs[rest]:
    return FAIL("state_fn-" + when, "%s: state_fn %r" % (what, getattr(o.state_fn, "__name__", o.state_fn)))
  if host in (2, 4, 5) and o.instrumented and o.current_state != name:
    return FAIL("current_state-" + when, "%s: current_state() %r expected %r" % (what, o.current_state, name))
  return None


def case(l, a, b, k, tsel, j1, pm, rk, host, deco):
  what = "host=%s deco=%d rk=%d" % (hosts.HOSTS[host], deco, rk)
  try:
    ch, c, o1, o2 = hosted.run(l, a, b, k, tsel, j1, pm, host, deco, rk=rk)
  except Exception as ex:
    return FAIL("raised:%s:%s" % (host, type(ex).__name__), "%s: %r" % (what, ex))
  exp1, rest1 = ch.oracle_start(ch.cur)
  exp2, rest2, kind = ch.oracle_dispatch(rest1)
  f = _check(what, "after-start", o1, ch, rest1, host) or _check(what, "after-step-" + kind, o2, ch, rest2, host)
  if f:
    return f
  return PASS(nontrivial=rest1 != rest2, tags=(kind,))


Family(globals(), "h_names", params=[("l", 0, 2), ("a", 1, 3), ("b", 0, 3), ("k", 0, 4), ("tsel", 0, 7), ("j1", 0, 3), ("pm", 0, 1), ("rk", 0, 2),
                                     ("host", 0, 5), ("deco", 0, 1)],
       pre=pre, case=case, split=["host", "deco"], tiers=LIM)


def set_tier(tier):
  set_tier_all(globals(), tier)


def jobs(tier):
  return jobs_all(globals(), tier)
