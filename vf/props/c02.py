"""C02 Events bubble outward; handled or ignored events change nothing (DESIGN 6/C02)."""
from vf.core import PASS, FAIL
from vf.family import Family, set_tier_all, jobs_all
from vf import charts

PROP = "C02"
PART = {}
FUNCTIONS = ["miros.hsm.HsmEventProcessor.dispatch (outward search, HANDLED/IGNORED branches)", "miros.hsm.HsmEventProcessor.top",
             "miros.hsm.HsmEventProcessor.trans_"]
ASSUMPTIONS = [
  "pre-state installed directly (state.fun = temp.fun = current handler)",
  "handlers answer internal probe signals (SEARCH_FOR_SUPER, EMPTY) by naming their parent, as the documented handler shape does",
  "how a declining state is asked for its parent and the event.ignored flag are mechanism, not asserted",
]
OUTSIDE = ["active paths deeper than D", "instrumented hosts (C18)"]
EXPLANATION = ("Bounded symbolic execution (CrossHair/z3) of the real dispatch on a chain chart of symbolic depth d with a symbolic "
               "reaction per state on the active path (pass=SUPER, decline=UNHANDLED, handle=HANDLED, transition to a symbolic target). "
               "Oracle: offers go from the current state outward to the first state that neither passes nor declines, each once; if it "
               "handled or nobody answered, no entry/exit/init runs, state.fun is unchanged and temp.fun is state.fun.")
RULE = ("one case per (depth, reaction vector cut after the first answering state, target, implicit-action mask); "
        "non-trivial = at least one state declined or passed before the answer")
LIM = {"quick": dict(D=5, hxs=(0, 7)), "thorough": dict(D=7, hxs=(0, 2, 5, 7))}
DMAX = 7


def bounds(tier):
  d = dict(LIM[tier])
  d["meaning"] = "D = max depth of the active path; reactions 0 pass,1 decline,2 handle,3 transition; target = any state of the chain"
  return d


def pre(v, lim):
  d = v["d"]
  if d > lim["D"]:
    return False
  if v["hx"] not in lim["hxs"]:
    return False
  answered = False
  for i in range(DMAX):
    r = v["r%d" % i]
    if i >= d or answered:
      if r != 0:      # canonical: nothing after the answering state / beyond the chain
        return False
    elif r >= 2:
      answered = True
      if r == 2 and v["t"] != 0:
        return False
  if not answered and v["t"] != 0:
    return False
  if v["t"] >= d:
    return False
  return True


def case(d, r0, r1, r2, r3, r4, r5, r6, t, hx):
  from miros.hsm import HsmEventProcessor
  rs = [r0, r1, r2, r3, r4, r5, r6]
  parent = [i - 1 for i in range(d)]
  cur = d - 1
  react = [charts.R_PASS] * d
  # r_i is the reaction of the i-th state on the active path counted from the current state outward
  for i in range(d):
    st = cur - i
    react[st] = {0: charts.R_PASS, 1: charts.R_DECLINE, 2: charts.R_HANDLE, 3: t}[rs[i]]
  ch = charts.Chart(parent, react, [-1] * d, hx=hx)
  c = HsmEventProcessor()
  c.state.fun = ch.hs[cur]
  c.temp.fun = ch.hs[cur]
  exp, rest, kind = ch.oracle_dispatch(cur)
  try:
    c.dispatch(ch.Event(signal=ch.SIG))
  except Exception as ex:
    return FAIL("dispatch-raised:" + type(ex).__name__, "%r log=%s" % (ex, ch.log))
  offers = [x for x in ch.log if x[0] == "of"]
  exp_offers = [x for x in exp if x[0] == "of"]
  if offers != exp_offers:
    return FAIL("offer-sequence", "react=%s offers=%s expected=%s" % (react, offers, exp_offers))
  if kind in ("handled", "ignored"):
    acts = [x for x in ch.log if x[0] != "of"]
    if acts:
      return FAIL("action-on-%s-event" % kind, "react=%s actions=%s" % (react, acts))
    if c.state.fun is not ch.hs[cur]:
      return FAIL("state-changed-on-%s-event" % kind, "now %s" % getattr(c.state.fun, "__name__", c.state.fun))
    if c.temp.fun is not c.state.fun:
      return FAIL("temp-not-restored-on-%s-event" % kind, "temp.fun=%s" % getattr(c.temp.fun, "__name__", c.temp.fun))
  else:
    if ch.log != exp:
      return FAIL("transition-actions", "react=%s log=%s expected=%s" % (react, ch.log, exp))
    if c.state.fun is not ch.hs[rest] or c.temp.fun is not c.state.fun:
      return FAIL("resting-state", "rest expected s%d" % rest)
  return PASS(nontrivial=any(r in (0, 1) for r in rs[:max(0, len(exp_offers) - 1)]) and len(exp_offers) > 1, tags=(kind,))


Family(globals(), "h_bubble",
       params=[("d", 1, DMAX)] + [("r%d" % i, 0, 3) for i in range(DMAX)] + [("t", 0, DMAX - 1), ("hx", 0, 7)],
       pre=pre, case=case, split=["d", "hx"], tiers=LIM)


def set_tier(tier):
  set_tier_all(globals(), tier)


def jobs(tier):
  return jobs_all(globals(), tier)
