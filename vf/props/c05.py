"""C05 Posting to an active object always returns; the system reaches quiescence (DESIGN 6/C05).  Engine E2."""
from vf.e2 import propbase

PROP = "C05"
PART = {}
LEVEL = "model_checking"
CASES = {}
SCN = "posting"
FUNCTIONS = []
ASSUMPTIONS = [
  "threads = P posters, each calling the real ActiveObject.post_fifo/post_lifo once (kind is a symbolic input bit), and the consumer running the real "
  "ActiveObject.run_event; all translated from /repo's source on this run (wrappers included, with instrumentation off)",
  "model objects: queue.Queue(maxsize) as a counter of tokens (linearizable: it has its own mutex), collections.deque(maxlen) with cells, "
  "threading.Event as a flag; every single call on them is one indivisible step, everything between two calls may interleave",
  "dispatch of an event is a stub (the chart's handlers are C01/C02's subject)",
  "fairness: a thread that is enabled at some state of a cycle must run in the cycle (strong fairness: fewer admissible cycles than weak fairness, "
  "so no alarm on a schedule an OS scheduler with blocking primitives cannot produce for ever)",
  "operations on objects only one thread touches (or that are only read) are merged into the preceding step (they commute with every other thread's operations)",
]
OUTSIDE = ["more than 2 posters (quick) / 3 posters (thorough), more than one post per poster", "cycles and deadlocks that need more than K steps (K per query in the evidence)",
           "real capacity 500 (capacity 3 is modelled; the cycle found on the unrepaired code does not involve the capacity)", "unfair schedules (excluded by the statement)"]
EXPLANATION = ("Bounded model checking (z3/cvc5 portfolio on QF_BV) of the step machine translated from the real LockingDeque.append/appendleft, "
               "ActiveObject.post_fifo/post_lifo/run_event, HsmWithQueues.next_rtc: for every schedule up to K steps there is no state in which a poster "
               "is blocked for ever (deadlock query) and no fair cycle in which a post has not returned (lasso query). Where the adequacy query is unsat, "
               "K covers every behaviour of the scenario and the verdict is complete for it. Counterexample schedules are replayed on the real functions "
               "with real threads (cycles: 51 rounds) before they are reported.")
RULE = "one evaluation = one BMC query (all schedules and inputs up to K steps at once); non-trivial = a query that decides a property clause (not a vacuity guard)"


def scenarios(tier):
  one = dict(nposters=1, posts=(1,), capacity=3, ghost_order=False)
  onep = dict(nposters=1, posts=(1,), capacity=3, ghost_order=False, pending=1)
  two = dict(nposters=2, posts=(1, 1), capacity=3, ghost_order=False)
  three = dict(nposters=3, posts=(1, 1, 1), capacity=3, ghost_order=False)
  # a full queue (capacity 2, two events pending) with a post made by the object's own handler: posting to a full queue must not block either
  full = dict(nposters=1, posts=(1,), capacity=2, pending=2, handler_post=True, ghost_order=False)
  if tier == "quick":
    return [(one, 30, 30), (onep, 30, 30), (two, 22, 22), (full, 26, 26)]
  return [(one, 34, 34), (onep, 34, 34), (two, 32, 32), (three, 22, 22), (full, 32, 32)]


def bounds(tier):
  return {"scenarios": [{"kwargs": k, "K_lasso": a, "K_deadlock": b} for (k, a, b) in scenarios(tier)],
          "meaning": "posters x 1 post each, capacity 3; pending = events already queued at the start; K = unrolling depth in steps (one shared operation per step)"}


def jobs(tier):
  return []


def specs(tier):
  out = []
  to = 900 if tier == "quick" else 3000
  for (kw, kl, kd) in scenarios(tier):
    out.append(dict(scenario=SCN, kwargs=kw, kind="reach", K=kd, pred="posters_done", timeout=to))
    out.append(dict(scenario=SCN, kwargs=kw, kind="deadlock", K=kd, pred="poster_open", timeout=to, replay="posting_replay"))
    out.append(dict(scenario=SCN, kwargs=kw, kind="lasso", K=kl, pred="poster_open", timeout=to, replay="posting_replay"))
    if kw.get("handler_post"):
      out.append(dict(scenario=SCN, kwargs=kw, kind="deadlock", K=kd, pred="consumer_stuck", timeout=to, replay="posting_replay"))
      # "the system reaches quiescence": when nobody can move, every posted event has been dispatched (C04 asks this of the queues with
      # room; here it is asked of the full one, where posts take the no-room path)
      out.append(dict(scenario=SCN, kwargs=kw, kind="deadlock", K=kd, pred="quiescent_lost", timeout=to, replay="posting_replay"))
    if not kw.get("handler_post") and not kw.get("pending"):
      # quiescence from an empty queue: no thread can move and an event is still queued (C04 asks the same of its own scenarios)
      out.append(dict(scenario=SCN, kwargs=kw, kind="deadlock", K=kd, pred="quiescent_lost", timeout=to, replay="posting_replay"))
    if kw["nposters"] == 1:
      out.append(dict(scenario=SCN, kwargs=kw, kind="adequacy", K=kl, timeout=to))
  return out


def signature(spec, r):
  rep = r["replay"]
  real = rep["real"]
  npost = spec["kwargs"]["nposters"]
  open_posters = [p for p in range(npost) if p not in real["posters_finished"]]
  if spec["kind"] == "lasso":
    loop = r.get("loop") or [0, 0]
    ops = r["trace"]
    where = sorted({t.split(":")[0] for t in ops})
    return ("fair-cycle:post-does-not-return",
            "a post_fifo/post_lifo call has not returned after %d rounds of a fair cycle on the real code (threads %s; inputs %s); schedule: %s" % (
              rep["loop_rounds_replayed"], where, r.get("inputs"), ops), bool(open_posters) and rep["loop_rounds_replayed"] > 0)
  if spec.get("pred") == "consumer_stuck":
    where = real["waiting_at"].get(str(npost))
    return ("deadlock:object-thread-blocked-in-its-own-post", "the object's thread is blocked at %s inside a post made by its own handler; real objects: %s; schedule: %s" % (
      where, real, r["trace"]), where is not None and tuple(where) != ("Q", "get"))
  if spec.get("pred") == "quiescent_lost":
    lost = bool(real["deque"]) and real["tokens"] == 0
    full = bool(spec["kwargs"].get("handler_post"))
    return ("quiescent-with-pending-events" + (":full-queue" if full else ""), "all posters returned, the consumer waits; the real queue (capacity %d%s) holds %s with %d wake-up "
            "tokens, dispatched %s; schedule: %s" % (spec["kwargs"]["capacity"], ", full at the start" if full else "", real["deque"], real["tokens"], real["dispatch_log"], r["trace"]), lost)
  return ("deadlock:poster-blocked",
          "no thread can move and poster(s) %s never returned; real objects: %s; schedule: %s" % (open_posters, real, r["trace"]), bool(open_posters))


def solver_part(tier, known):
  from vf.e2 import harness
  global FUNCTIONS
  FUNCTIONS[:] = propbase.functions_of(SCN, scenarios(tier)[2][0])
  n = 12 if tier == "quick" else 60
  return propbase.run(specs(tier), known, signature,
                      differential=lambda: harness.posting_differential(dict(nposters=2, posts=(1, 1), capacity=3), n, seed=5))
