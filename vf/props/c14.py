"""C14 Queued charts dispatch posted events in deque order, one per step (DESIGN 6/C14)."""
from vf.core import PASS, FAIL
from vf.family import Family, set_tier_all, jobs_all
from vf import queued

PROP = "C14"
PART = {}
FUNCTIONS = ["miros.hsm.HsmWithQueues.post_fifo", "miros.hsm.HsmWithQueues.post_lifo", "miros.hsm.HsmWithQueues.next_rtc",
             "miros.hsm.HsmWithQueues.complete_circuit", "miros.hsm.HsmWithQueues.dispatch", "miros.hsm.HsmWithQueues.start_at",
             "miros.activeobject.ActiveObject.post_fifo", "miros.activeobject.ActiveObject.post_lifo",
             "miros.activeobject.LockingDeque.append", "miros.activeobject.LockingDeque.appendleft", "miros.activeobject.LockingDeque.popleft",
             "the spy/trace/live decorators around them"]
ASSUMPTIONS = [
  "inductive step: pre-state = arbitrary numbers of pending events built through the real API; one or two operations follow; "
  "queue contents are distinct concrete tokens",
  "capacity set to 8 so that no operation overflows (overflow behaviour is C16)",
  "ActiveObject host is not started (no thread): its queue is the LockingDeque over a non-blocking queue.Queue subclass",
  "handler scripts act only on the first dispatch of a case, so complete_circuit terminates",
  "ig: 0 the chart handles every event, 1/2 the odd/even numbered events are answered by no state (offered, then ignored by top)",
  "the truth value next_rtc returns is not asserted (the statement does not fix it); the number of events it dispatched is",
]
OUTSIDE = ["more than two consecutive operations per case (covered by induction on the queue state)", "overflowing queues (C16)",
           "interleaving with other threads (C04)"]
EXPLANATION = ("Bounded symbolic execution (CrossHair/z3) of the real queued-chart API from a symbolic pre-state (pending length), "
               "two symbolic operations from {post_fifo, post_lifo, next_rtc, complete_circuit}, a symbolic handler script of 0-2 "
               "posts made during the first dispatch, on HsmWithQueues and an un-started ActiveObject, decorated or not, instrumented "
               "or not. Oracle: a collections.deque driven by the same operations; dispatch log, remaining queue and return values must match; "
               "next_rtc dispatches exactly the front event (at most one); complete_circuit returns with an empty queue.")
RULE = "one case per (host, decoration, instrumented, pending length, op1, op2, script, which tokens the chart ignores); non-trivial = at least one event dispatched"
LIM = {"quick": dict(NP=2), "thorough": dict(NP=4)}
POST_SCRIPTS = [i for i, s in enumerate(queued.SCRIPTS) if all(a in (0, 1) for a in s)]   # 7 scripts
OPMAP = [0, 1, 2, 3]   # post_fifo, post_lifo, next_rtc, complete_circuit


def bounds(tier):
  d = dict(LIM[tier]); d["meaning"] = "NP = max pending events in the pre-state; ops post_fifo/post_lifo/next_rtc/complete_circuit x (none or one more); 7 post scripts"
  return d


def pre(v, lim):
  return v["np"] <= lim["NP"]


def case(host, deco, instr, np_, op1, op2, script, ig):
  o1 = OPMAP[op1]
  o2 = -1 if op2 == 0 else OPMAP[op2 - 1]
  try:
    qc, m, rr, rm = queued.run_pair(host, deco, instr, np_, 0, o1, o2, POST_SCRIPTS[script], igmode=ig)
  except Exception as ex:
    return FAIL("raised:" + type(ex).__name__, repr(ex))
  what = "host=%d deco=%d instr=%d ignored-tokens-mode=%d np=%d ops=%s,%s script=%s" % (host, deco, instr, ig, np_, queued.OPS[o1], queued.OPS[o2] if o2 >= 0 else "-", queued.SCRIPTS[POST_SCRIPTS[script]])
  if queued.NBQueue.blocked:
    return FAIL("would-block", what)
  if qc.log != m.log:
    if sorted(qc.log) != sorted(m.log):
      return FAIL("dispatch-set", "%s: dispatched %s expected %s" % (what, qc.log, m.log))
    return FAIL("dispatch-order", "%s: dispatched %s expected %s" % (what, qc.log, m.log))
  if qc.pending() != list(m.pending):
    return FAIL("queue-content", "%s: queue %s expected %s" % (what, qc.pending(), list(m.pending)))
  if rr != rm:
    return FAIL("return-value", "%s: results %s expected %s" % (what, rr, rm))
  return PASS(nontrivial=len(m.log) > 0)


Family(globals(), "h_queue", params=[("host", 0, 1), ("deco", 0, 1), ("instr", 0, 1), ("np", 0, 4), ("op1", 0, 3), ("op2", 0, 4), ("script", 0, 6), ("ig", 0, 2)],
       pre=pre, case=case, split=["host", "deco", "instr"], tiers=LIM)


def set_tier(tier):
  set_tier_all(globals(), tier)


def jobs(tier):
  return jobs_all(globals(), tier)
