"""C14 Queued charts dispatch posted events in deque order, one per step (DESIGN 6/C14)."""
from vf.core import PASS, FAIL
from vf.family import Family, set_tier_all, jobs_all
from vf import queued

PROP = "C14"
PART = {}
FUNCTIONS = ["miros.hsm.HsmWithQueues.post_fifo", "miros.hsm.HsmWithQueues.post_lifo", "miros.hsm.HsmWithQueues.next_rtc",
             "miros.hsm.HsmWithQueues.complete_circuit", "miros.hsm.HsmWithQueues.dispatch", "miros.hsm.HsmWithQueues.start_at",
             "miros.activeobject.ActiveObject.post_fifo", "miros.activeobject.ActiveObject.post_lifo",
             "miros.activeobject.LockingDeque.append", "miros.activeobject.LockingDeque.appendleft", "miros.activeobject.LockingDeque.popleft",
             "the spy/trace/live decorators around them"]
ASSUMPTIONS = [
  "inductive step: pre-state = arbitrary numbers of pending events built through the real API; one or two operations follow; "
  "queue contents are distinct concrete tokens",
  "capacity set to 8 so that no operation overflows (overflow behaviour is C16)",
  "ActiveObject host is not started (no thread): its queue is the LockingDeque over a non-blocking queue.Queue subclass",
  "handler scripts act only on the first dispatch of a case, so complete_circuit terminates",
  "h_long_circuit: capacity 3, 1-3 events pending, every dispatch posts one follow-up until 4-7 have been made: one complete_circuit call takes more steps "
  "(5-10) than the queue can hold events, the queue itself never overflows",
  "ig: 0 the chart handles every event, 1/2 the odd/even numbered events are answered by no state (offered, then ignored by top)",
  "the truth value next_rtc returns is not asserted (the statement does not fix it); the number of events it dispatched is",
]
OUTSIDE = ["more than two consecutive operations per case (covered by induction on the queue state)", "overflowing queues (C16)",
           "interleaving with other threads (C04)"]
EXPLANATION = ("Bounded symbolic execution (CrossHair/z3) of the real queued-chart API from a symbolic pre-state (pending length), "
               "two symbolic operations from {post_fifo, post_lifo, next_rtc, complete_circuit}, a symbolic handler script of 0-2 "
               "posts made during the first dispatch, on HsmWithQueues and an un-started ActiveObject, decorated or not, instrumented "
               "or not. Oracle: a collections.deque driven by the same operations; dispatch log, remaining queue and return values must match; "
               "next_rtc dispatches exactly the front event (at most one); complete_circuit returns with an empty queue.")
RULE = "one case per (host, decoration, instrumented, pending length, op1, op2, script, which tokens the chart ignores); non-trivial = at least one event dispatched"
LIM = {"quick": dict(NP=2), "thorough": dict(NP=4)}
POST_SCRIPTS = [i for i, s in enumerate(queued.SCRIPTS) if all(a in (0, 1) for a in s)]   # 7 scripts
OPMAP = [0, 1, 2, 3]   # post_fifo, post_lifo, next_rtc, complete_circuit


def bounds(tier):
  d = dict(LIM[tier]); d["meaning"] = "NP = max pending events in the pre-state; ops post_fifo/post_lifo/next_rtc/complete_circuit x (none or one more); 7 post scripts"
  return d


def pre(v, lim):
  return v["np"] <= lim["NP"]


def case(host, deco, instr, np_, op1, op2, script, ig):
  o1 = OPMAP[op1]
  o2 = -1 if op2 == 0 else OPMAP[op2 - 1]
  try:
    qc, m, rr, rm = queued.run_pair(host, deco, instr, np_, 0, o1, o2, POST_SCRIPTS[script], igmode=ig)
  except Exception as ex:
    return FAIL("raised:" + type(ex).__name__, repr(ex))
  what = "host=%d deco=%d instr=%d ignored-tokens-mode=%d np=%d ops=%s,%s script=%s" % (host, deco, instr, ig, np_, queued.OPS[o1], queued.OPS[o2] if o2 >= 0 else "-", queued.SCRIPTS[POST_SCRIPTS[script]])
  if queued.NBQueue.blocked:
    return FAIL("would-block", what)
  if qc.log != m.log:
    if sorted(qc.log) != sorted(m.log):
      return FAIL("dispatch-set", "%s: dispatched %s expected %s" % (what, qc.log, m.log))
    return FAIL("dispatch-order", "%s: dispatched %s expected %s" % (what, qc.log, m.log))
  if qc.pending() != list(m.pending):
    return FAIL("queue-content", "%s: queue %s expected %s" % (what, qc.pending(), list(m.pending)))
  if rr != rm:
    return FAIL("return-value", "%s: results %s expected %s" % (what, rr, rm))
  return PASS(nontrivial=len(m.log) > 0)


Family(globals(), "h_queue", params=[("host", 0, 1), ("deco", 0, 1), ("instr", 0, 1), ("np", 0, 4), ("op1", 0, 3), ("op2", 0, 4), ("script", 0, 6), ("ig", 0, 2)],
       pre=pre, case=case, split=["host", "deco", "instr"], tiers=LIM)


# ---- a circuit that takes more steps than the queue can hold events: every dispatch posts a follow-up until a budget is used up ------------
CAP = 3


def pre_long(v, lim):
  return True


def case_long(host, deco, n0, extra, lifo):
  """capacity 3, n0 events pending, every dispatched event posts one more (fifo or lifo) until CAP + extra follow-ups have been made: the
  queue never holds more than n0 events, complete_circuit needs n0 + CAP + extra steps"""
  import collections
  import miros.hsm as hsm
  chart = queued.make_host(host, 0, CAP)
  import miros.event as ev
  budget = [CAP + extra]
  log, model_log = [], []
  fresh = [0]

  def new_event():
    fresh[0] += 1
    return ev.Event(signal="T_L%d" % fresh[0])

  def only(c, e):
    sg = ev.signals
    if e.signal in (sg.ENTRY_SIGNAL, sg.INIT_SIGNAL, sg.EXIT_SIGNAL):
      return ev.return_status.HANDLED
    if e.signal_name.startswith("T_"):
      log.append(e.signal_name)
      if budget[0] > 0:
        budget[0] -= 1
        (c.post_lifo if lifo else c.post_fifo)(new_event())
      return ev.return_status.HANDLED
    c.temp.fun = c.top
    return ev.return_status.SUPER
  only.__name__ = "only"
  state = hsm.spy_on(only) if deco else only
  hsm.HsmWithQueues.start_at(chart, state)
  model = collections.deque()
  for _ in range(n0):
    e = new_event()
    chart.post_fifo(e)
    model.append(e.signal_name)
  what = "host=%d deco=%d capacity=%d pending=%d, every dispatch posts one %s follow-up, %d follow-ups in all" % (host, deco, CAP, n0, "lifo" if lifo else "fifo", CAP + extra)
  # reference: a deque driven the same way
  b, k = CAP + extra, n0
  while model:
    model_log.append(model.popleft())
    if b > 0:
      b -= 1
      k += 1
      (model.appendleft if lifo else model.append)("T_L%d" % k)
  try:
    chart.complete_circuit()
  except Exception as ex:
    return FAIL("raised:" + type(ex).__name__, "%s: %r" % (what, ex))
  if queued.NBQueue.blocked:
    return FAIL("would-block", what)
  q = chart.queue
  left = [e.signal_name for e in (q.deque if hasattr(q, "deque") else q)]
  if left:
    return FAIL("complete_circuit-leaves-events", "%s: returned with %s still queued after %d dispatches (%d expected)" % (what, left, len(log), len(model_log)))
  if log != model_log:
    return FAIL("dispatch-order", "%s: dispatched %s expected %s" % (what, log, model_log))
  return PASS(nontrivial=True)


Family(globals(), "h_long_circuit", params=[("host", 0, 1), ("deco", 0, 1), ("n0", 1, 3), ("extra", 1, 4), ("lifo", 0, 1)],
       pre=pre_long, case=case_long, split=[], tiers={"quick": {}, "thorough": {}})


def set_tier(tier):
  set_tier_all(globals(), tier)


def jobs(tier):
  return jobs_all(globals(), tier)
