"""C20 The trace has one record per transition and none for other steps (DESIGN 6/C20)."""
from vf.core import PASS, FAIL
from vf.family import Family, set_tier_all, jobs_all
from vf import hosted, hosts

PROP = "C20"
PART = {}
FUNCTIONS = ["miros.hsm.trace_on_start", "miros.hsm.InstrumentedHsmEventProcessor.dispatch (append_to_full_trace, is_signal_hooked)",
             "miros.hsm.spy_on (spy tuples)", "miros.hsm.HsmWithQueues.next_rtc/start_at", "miros.activeobject.ActiveObject.start_at"]
ASSUMPTIONS = ["threads of ActiveObject hosts are recorded, never run; steps are taken with next_rtc",
               "both readings of 'start state' are accepted for the record written by start_at (the state given to start_at, or the state the chart rests in)",
               "TRC_RING_BUFFER_SIZE is read at construction; the truncation variant sets it to 2 and takes three transition steps"]
OUTSIDE = ["charts larger than N", "un-decorated charts (they have no trace)"]
EXPLANATION = ("Bounded symbolic execution (CrossHair/z3) of start_at and one step (transition / internally handled / ignored) on the "
               "instrumented hosts with decorated states. Oracle from the chart tables: after start_at exactly one record (top, None, start or "
               "resting state); after the step exactly one new record (previous resting state, signal name, new resting state) iff the answering "
               "state returned a transition, none otherwise; the buffer keeps the most recent TRC_RING_BUFFER_SIZE records in order.")
EXPLANATION += (" A second family (h_trace_recall) lets an entry / exit / init action or the answering handler recall a deferred event while the "
                "transition is under way: the record must still carry the event's own signal.")
RULE = "one case per (chart tuple, reaction kind, host, ring variant); non-trivial = a transition record was expected"
LIM = {"quick": dict(N=4), "thorough": dict(N=6)}
IHOSTS = [1, 2, 4, 5]


def bounds(tier):
  d = dict(LIM[tier]); d["meaning"] = "N = max states; rk 0 transition/1 handled/2 ignored; hosts=%s; ring 0 default/1 TRC_RING_BUFFER_SIZE=2 with two extra steps" % [hosts.HOSTS[i] for i in IHOSTS]
  return d


def pre(v, lim):
  if v["l"] + v["a"] + v["b"] + v["j1"] > lim["N"]:
    return False
  if not (v["k"] < v["l"] + v["a"] and v["tsel"] < v["l"] + v["a"] + v["b"]):
    return False
  if v["rk"] != 0 and (v["tsel"] != 0 or v["j1"] != 0):
    return False
  return True


def rec(t):
  return (t.start_state, t.signal, t.end_state)


def case(l, a, b, k, tsel, j1, pm, rk, hosti, ring):
  host = IHOSTS[hosti]
  what = "host=%s rk=%d ring=%d" % (hosts.HOSTS[host], rk, ring)
  rings = {"trc": 2} if ring else None
  try:
    ch, c, o1, o2 = hosted.run(l, a, b, k, tsel, j1, pm, host, 1, rk=rk, rings=rings)
  except Exception as ex:
    return FAIL("raised:%s" % type(ex).__name__, "%s: %r" % (what, ex))
  exp1, rest1 = ch.oracle_start(ch.cur)
  exp2, rest2, kind = ch.oracle_dispatch(rest1)
  n = ch.names
  t1 = [rec(t) for t in o1.trace]
  if len(t1) != 1 or t1[0][0] != "top" or t1[0][1] is not None or t1[0][2] not in (n[ch.cur], n[rest1]):
    return FAIL("trace-after-start", "%s: %s" % (what, t1))
  t2 = [rec(t) for t in o2.trace]
  want = list(t1)
  if kind == "tran":
    want.append((n[rest1], ch.sig_name, n[rest2]))
  if t2 != want:
    return FAIL("trace-after-%s-step" % kind, "%s: %s expected %s" % (what, t2, want))
  if ring:
    # two more steps of the same event from the new resting state; the buffer keeps the last two records
    cur = rest2
    for _ in range(2):
      e2, r2, k2 = ch.oracle_dispatch(cur)
      hosts.step(c, host, ch.Event(signal=ch.SIG))
      if k2 == "tran":
        want.append((n[cur], ch.sig_name, n[r2]))
      cur = r2
    got = [rec(t) for t in c.full.trace]
    if got != want[-2:]:
      return FAIL("trace-ring-buffer", "%s: %s expected %s" % (what, got, want[-2:]))
  return PASS(nontrivial=kind == "tran", tags=(kind,))


Family(globals(), "h_trace", params=[("l", 0, 2), ("a", 1, 3), ("b", 0, 3), ("k", 0, 4), ("tsel", 0, 7), ("j1", 0, 3), ("pm", 0, 1), ("rk", 0, 2),
                                     ("hosti", 0, 3), ("ring", 0, 1)],
       pre=pre, case=case, split=["hosti", "ring"], tiers=LIM)


# ---- a deferred event is recalled by an entry / exit / init action while a transition is under way -------------------------
QHOSTS = [2, 4, 5]
WHERE = ["exit of the source", "entry of the target", "init of the target", "the handler that answers (before it returns the transition)"]


def pre_r(v, lim):
  return True


def case_recall(hosti, where, nd, deep):
  """chart p > {a, b (> c if deep)}; current a; the event takes a -> b; `nd` events were deferred before; one recall() at `where`"""
  from vf import charts
  host = QHOSTS[hosti]
  parent = [-1, 0, 0] + ([2] if deep else [])
  react = [charts.R_PASS, 2, charts.R_PASS] + ([charts.R_PASS] if deep else [])
  init = [-1, -1, 3 if deep else -1] + ([-1] if deep else [])
  what = "host=%s recall in %s, %d deferred, target %s" % (hosts.HOSTS[host], WHERE[where], nd, "with an initial transition" if deep else "plain")
  try:
    c, spy_lines, trace_lines = hosts.make(host)
    ch = charts.Chart(parent, react, init, decorate=True, fresh=False)
    recalled = []

    def hook(kind, i, chart):
      if (where, kind, i) in ((0, "ex", 1), (1, "en", 2), (2, "in", 2)):
        recalled.append(chart.recall())
    ch.action_hook = hook
    if where == 3:
      raw = ch.raw[1]
    c.start_at(ch.hs[1])
    deferred = [ch.Event(signal="W_DEFERRED%d" % i) for i in range(nd)]
    for e in deferred:
      c.defer(e)
    before = [rec(t) for t in c.full.trace]
    if where == 3:
      # recall from the answering handler itself: wrap state a's reaction
      orig = ch._react

      def react_with_recall(i, chart, s):
        if i == 1 and s == ch.SIG:
          recalled.append(chart.recall())
        return orig(i, chart, s)
      ch._react = react_with_recall
    hosts.step(c, host, ch.Event(signal=ch.SIG))
    after = [rec(t) for t in c.full.trace]
  except Exception as ex:
    return FAIL("raised:%s" % type(ex).__name__, "%s: %r" % (what, ex))
  n = ch.names
  rest = 3 if deep else 2
  want = before + [(n[1], ch.sig_name, n[rest])]
  if after != want:
    sig = "trace-record-wrong-signal" if len(after) == len(want) and after[-1][1] != ch.sig_name else "trace-after-tran-step"
    return FAIL(sig + ":recall-during-transition", "%s: trace %s expected %s" % (what, after, want))
  if len(recalled) != 1 or recalled[0] is not (deferred[0] if nd else None):
    return FAIL("harness:recall", "%s: recalled %r" % (what, recalled))
  return PASS(nontrivial=nd > 0)


Family(globals(), "h_trace_recall", params=[("hosti", 0, 2), ("where", 0, 3), ("nd", 0, 2), ("deep", 0, 1)], pre=pre_r, case=case_recall, split=[], tiers=LIM)


def set_tier(tier):
  set_tier_all(globals(), tier)


def jobs(tier):
  return jobs_all(globals(), tier)
