"""C11 Cancelling a timed source stops exactly that source, for good (DESIGN 6/C11) - E1 part: which sources stop.
The 'for good' part (no post after the cancelling call returned, under every interleaving) is decided by the E2 scenario in solver_part."""
import json
from vf.core import PASS, FAIL
from vf.family import Family, set_tier_all, jobs_all
from vf import fabric

PROP = "C11"
PART = {}
FUNCTIONS = ["miros.activeobject.ActiveObject.cancel_event", "miros.activeobject.ActiveObject.cancel_events",
             "miros.activeobject.ActiveObject.__post_event (creates the tracked records)", "post_event_thread_runner (run-flag checks)"]
ASSUMPTIONS = [
  "timer threads are recorded stand-ins (never run during the E1 cases); time.sleep is a virtual clock",
  "an 'equal copy' of an id is uuid.UUID(str(id)); an equal copy of a name comes from Event.loads(Event.dumps(e)) - equal, not the same object; "
  "signal names are longer than one character (CPython shares one-character strings)",
]
OUTSIDE = ["more than three tracked sources (E1), more than two timer threads with 1-2 firings and schedules longer than K (E2)"]
EXPLANATION = ("E1: bounded symbolic execution (CrossHair/z3) of cancel_event / cancel_events on an active object tracking 1-3 timed sources with "
               "symbolic signal names, symbolic choice of the source to cancel, by id or by name, with the identical object or an equal copy. "
               "Oracle: exactly the matching sources have their run flag cleared and leave the tracked list; all others keep their flag and stay tracked. "
               "E2: bounded model checking (QF_BV) of the translated cancel_event / cancel_events x run_event x post_event_thread_runner under every "
               "schedule: after the cancelling call has returned exactly the matching sources have their flag down and are untracked, no timer posts after a "
               "fresh look at its flag, nobody crashes; the check-then-post window is the recorded known finding (replayed on the real code).")
RULE = "one case per (number of sources, their names, which one, by id or name, same object or equal copy); non-trivial = at least two sources"
LIM = {"quick": dict(NS=3), "thorough": dict(NS=4)}
NAMES = ["W_ALPHA", "W_ALPHA1"]      # distinct names, one contained in the other (as Pulse / Pulse1 in the examples)


def bounds(tier):
  d = dict(LIM[tier]); d["meaning"] = "NS = max tracked sources; names mask bit i = source i uses W_ALPHA1; by 0 id/1 name; copy 0 identical object/1 equal copy; absent = cancel something not tracked"
  return d


def pre(v, lim):
  ns = v["ns"]
  if ns > lim["NS"]:
    return False
  top = 2 if ns == 1 else (4 if ns == 2 else (8 if ns == 3 else 16))   # no shift on a symbolic int: one path per tuple
  if v["names"] >= top:
    return False
  if v["which"] >= ns:
    return False
  return True


def case(ns, names, which, by, copy, absent):
  hsm, ao = fabric.install()
  import uuid as _uuid
  from miros.event import Event
  ao.time = fabric.VirtualTime()
  a, log = fabric.make_active_object(ao, hsm)
  srcs = []
  for i in range(ns):
    nm = NAMES[(names >> i) & 1]
    tid = a.post_fifo(Event(signal=nm), period=1, times=3, deferred=True)
    srcs.append((nm, tid))
  tracked = {rec.uuid: rec for rec in a.posted_events_queue}
  flags = [tracked[tid].task_run_event for (_, tid) in srcs]
  nm, tid = srcs[which]
  what = "sources=%s cancel %s by %s using %s%s" % ([n for n, _ in srcs], which, "name" if by else "id", "an equal copy" if copy else "the same object",
                                                  ", of something not tracked" if absent else "")
  try:
    if by == 0:
      key = tid
      if absent:
        key = _uuid.uuid4()
        should = []
      else:
        should = [which]
      if copy:
        key = _uuid.UUID(str(key))
      a.cancel_event(key)
    else:
      if absent:
        e = Event(signal="W_GAMMA")
        should = []
      else:
        e = Event(signal=nm)
        should = [i for i, (n2, _) in enumerate(srcs) if n2 == nm]
      if copy:
        e = Event.loads(Event.dumps(e))
      a.cancel_events(e)
  except Exception as ex:
    return FAIL("cancel-raised:" + type(ex).__name__, "%s: %r" % (what, ex))
  still = [rec.uuid for rec in a.posted_events_queue]
  for i, (n2, t2) in enumerate(srcs):
    stopped = not flags[i].is_set()
    trackedi = any(t2 == u for u in still)
    if i in should:
      if not stopped:
        return FAIL("cancel-%s-does-nothing%s" % ("by-name" if by else "by-id", ":equal-copy" if copy else ""), "%s: source %d keeps running" % (what, i))
      if trackedi:
        return FAIL("cancelled-source-still-tracked", "%s: source %d" % (what, i))
    else:
      if stopped:
        return FAIL("other-source-stopped", "%s: source %d (%s) was stopped too" % (what, i, n2))
      if not trackedi:
        return FAIL("other-source-untracked", "%s: source %d (%s) left the tracked list" % (what, i, n2))
  if len(still) != ns - len(should):
    return FAIL("tracked-list-size", "%s: %d tracked" % (what, len(still)))
  return PASS(nontrivial=ns >= 2)


Family(globals(), "h_cancel", params=[("ns", 1, 4), ("names", 0, 15), ("which", 0, 3), ("by", 0, 1), ("copy", 0, 1), ("absent", 0, 1)],
       pre=pre, case=case, split=["by", "copy"], tiers=LIM)


def set_tier(tier):
  set_tier_all(globals(), tier)


def jobs(tier):
  return jobs_all(globals(), tier)


# ---- E2 part: 'for good' under every interleaving -----------------------------------------------------------------------
def e2_scenarios(tier):
  a = dict(action="cancel_event", sources=2, times=1, other_source=True)
  b = dict(action="cancel_events", sources=2, times=1, other_source=False)
  c = dict(action="cancel_events", sources=2, times=1, other_source=True)
  d = dict(action="cancel_event", sources=1, times=2)
  if tier == "quick":
    return [(a, 24), (b, 24)]
  return [(a, 32), (b, 32), (c, 32), (d, 34)]


def e2_specs(tier):
  out = []
  to = 900 if tier == "quick" else 3000
  for (kw, K) in e2_scenarios(tier):
    out.append(dict(scenario="stopping", kwargs=kw, kind="reach", K=K, pred="returned", timeout=to))
    out.append(dict(scenario="stopping", kwargs=kw, kind="safety", K=K, pred="cancel_bad", timeout=to, replay="stopping_replay"))
    out.append(dict(scenario="stopping", kwargs=kw, kind="safety", K=K, pred="late_stale", timeout=to, replay="stopping_replay"))
    out.append(dict(scenario="stopping", kwargs=kw, kind="deadlock", K=K, pred="caller_open", timeout=to, replay="stopping_replay"))
  # a cancel by signal from another thread while the post is still on its way, then a cancel by the returned id: whole __post_event
  kw = dict(deferred=True, times=2, kind="fifo", capacity=2, existing=0, pending=0, canceller="signal")
  K = 30 if tier == "quick" else 40
  out.append(dict(scenario="rejecting", kwargs=kw, kind="reach", K=K, pred="cancelled_by_id", timeout=to))
  out.append(dict(scenario="rejecting", kwargs=kw, kind="safety", K=K, pred="survives_both_cancels", timeout=to, replay="rejecting_replay"))
  if tier != "quick":
    kw2 = dict(kw, deferred=False, kind="lifo")
    out.append(dict(scenario="rejecting", kwargs=kw2, kind="safety", K=K, pred="survives_both_cancels", timeout=to, replay="rejecting_replay"))
  return out


def signature(spec, r):
  from vf.props import c12
  if spec["scenario"] != "rejecting":
    return c12.signature(spec, r)
  real = r["replay"]["real"]
  oc = real["outcome"]
  if oc.get("error") or oc.get("canceller_error"):
    return ("thread-crashed", "real run: %s; schedule: %s" % (oc, r["trace"]), True)
  return ("source-survives-cancel", "cancel_events(signal) in another thread and then cancel_event(id) both returned, the source's run flag is still up (real run: %s); "
          "schedule: %s" % (real, r["trace"]), bool(oc.get("cancelled_by_id")) and any(real["new_flag_up"]))


def solver_part(tier, known):
  from vf.e2 import propbase, harness
  FUNCTIONS.extend(x for x in propbase.functions_of("stopping", e2_scenarios(tier)[0][0]) if x not in FUNCTIONS)
  FUNCTIONS.extend(x for x in propbase.functions_of("rejecting", dict(deferred=True, times=2, kind="fifo", capacity=2, existing=0, pending=0, canceller="signal")) if x not in FUNCTIONS)
  n = 8 if tier == "quick" else 30
  out = propbase.run(e2_specs(tier), known, signature, jobs=8, pred_signatures={"late_stale": "race:timer-check-then-post"},
                     differential=lambda: harness.stopping_differential(dict(action="cancel_events", sources=2, times=1, other_source=True), n, seed=17))
  out["coverage"]["e2_bounds"] = [{"kwargs": k, "K": K} for k, K in e2_scenarios(tier)]
  return out
