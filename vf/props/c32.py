"""C32 stripped() makes trace comparison timestamp-insensitive (DESIGN 6/C32)."""
from vf.core import PASS, FAIL, ladder, verdict_symbolic
from vf.family import Family, set_tier_all, jobs_all

PROP = "C32"
PART = {}
FUNCTIONS = ["miros.hsm.stripped", "item_without_timestamp (closure inside stripped)", "miros.hsm.HsmWithQueues.trace_tuple_to_formatted_string"]
ASSUMPTIONS = [
  "traces are built with the real trace_tuple_to_formatted_string from symbolic pieces: chart name, signal name, start and end state are symbolic "
  "strings (length <= 2) over printable non-blank characters; they stay symbolic through stripped() (regex match, splitlines, strip)",
  "timestamps are texts in strftime's '%Y-%m-%d %H:%M:%S.%f' format handed through a stub clock (CrossHair replaces the datetime module "
  "under tracing); the perturbed copy uses other timestamps, "
  "a symbolic number of blank lines between records (empty, or holding only blanks / tabs) and symbolic leading/trailing blanks or tabs around lines",
  "weaker reading for a single line: its timestamp (and leading spaces) are removed; trailing blanks around a single line are not asserted",
]
OUTSIDE = ["names containing whitespace or line-breaking characters (splitlines splits there; miros never produces them in state names)",
           "name pieces longer than 2 characters", "more than 3 records"]
EXPLANATION = ("Symbolic execution (CrossHair/z3) of stripped() on traces whose name pieces are symbolic strings: for every choice of the pieces within "
               "the bound and every perturbation (timestamps, blank lines, surrounding blanks/tabs), stripped(trace) is exactly the list of the "
               "'[name] e->sig() a->b' remainders and equals stripped(perturbed trace); a single line loses its timestamp. solver_part adds a z3 "
               "regular-language inclusion: every timestamp strftime can render lies in the character class the pattern expects.")
RULE = "paths = distinct behaviours of the string operations on the symbolic pieces, per (records, blank lines, lead, trail) partition"
LIM = {"quick": dict(R=2, B=1, W=1), "thorough": dict(R=3, B=2, W=2)}
ALLOWED = "abzAZ_09[]()->:.!#"


def bounds(tier):
  d = dict(LIM[tier]); d["meaning"] = "R = max records; B = max blank lines inserted; W = max leading/trailing blanks; pieces: strings of length <= 2 over %r" % ALLOWED
  return d


def ok_piece(s, lo):
  if not (lo <= len(s) <= PART.get("L", 2)):
    return False
  for c in s:
    if c not in ALLOWED:
      return False
  return True


class StubClock:
  """stands for datetime inside miros.hsm while traces are formatted: the 'datetime' of a record is its already
  rendered text (rendered by the real strftime format '%Y-%m-%d %H:%M:%S.%f' beforehand)"""

  @staticmethod
  def strftime(obj, fmt):
    return obj

  @staticmethod
  def now():
    return "2000-01-01 00:00:00.000000"


STAMPS_A = ["2017-11-05 15:17:39.424492", "2017-11-05 15:17:40.424492", "2017-11-05 15:17:41.424492"]
STAMPS_B = ["2031-01-02 03:04:05.000006", "2031-01-03 03:04:05.000006", "2031-01-04 03:04:05.000006"]


def build(name, sig, a, b, nrec, blanks, lead, trail, tabs):
  import miros.hsm as hsm
  real = hsm.stdlib_datetime
  hsm.stdlib_datetime = StubClock
  try:
    chart = hsm.HsmWithQueues()
    chart.name = name
    A, B, want = "\n", "", []
    pad = "\t" if tabs else " "
    for i in range(nrec):
      ra = chart.TraceTuple(datetime=STAMPS_A[i], start_state=a, signal=sig + str(i), payload=None, end_state=b)
      rb = chart.TraceTuple(datetime=STAMPS_B[i], start_state=a, signal=sig + str(i), payload=None, end_state=b)
      A += chart.trace_tuple_to_formatted_string(ra)
      # blank lines between records: truly empty ones, or (tabs variant) lines holding only blanks / tabs
      blank = "\n" if not tabs else (pad * (1 + lead) + "\n")
      B += pad * lead + chart.trace_tuple_to_formatted_string(rb).rstrip("\n") + pad * trail + "\n" + blank * blanks
      want.append("[" + name + "] e->" + sig + str(i) + "() " + a + "->" + b)
  finally:
    hsm.stdlib_datetime = real
  return A, B, want


POOL = ["", "a", "]", "[", "e->", "->", "()", "1:2", "x]y", "#!"]
STATES = ["a", "Zz9_"]


def pre(v, lim):
  if v["nrec"] > lim["R"] or v["blanks"] > lim["B"] or v["lead"] > lim["W"] or v["trail"] > lim["W"]:
    return False
  if v["tabs"] and v["lead"] == 0 and v["trail"] == 0 and v["blanks"] == 0:
    return False
  return True


def case_pool(name, sig, a, b, nrec, blanks, lead, trail, tabs):
  return case_strip(POOL[name], POOL[sig], STATES[a], STATES[b], nrec, blanks, lead, trail, tabs)


def case_strip(name, sig, a, b, nrec, blanks, lead, trail, tabs):
  import miros.hsm as hsm
  A, B, want = build(name, sig, a, b, nrec, blanks, lead, trail, tabs)
  with hsm.stripped(A) as sa, hsm.stripped(B) as sb:
    la = [sa] if isinstance(sa, str) else list(sa)
    lb = [sb] if isinstance(sb, str) else list(sb)
  if la != want:
    return FAIL("stripped-lines-wrong", "trace %r: stripped gives %r expected %r" % (A, la, want))
  if nrec > 1 or blanks > 0:
    if lb != want:
      return FAIL("perturbation-changes-result", "trace %r: stripped gives %r expected %r" % (B, lb, want))
  line = A.strip("\n").split("\n")[0]
  with hsm.stripped(" " * lead + line) as one:
    if one != want[0]:
      return FAIL("single-line-timestamp-kept", "%r -> %r expected %r" % (" " * lead + line, one, want[0]))
  return PASS()



Family(globals(), "h_pool", params=[("name", 0, len(POOL) - 1), ("sig", 0, len(POOL) - 1), ("a", 0, 1), ("b", 0, 1),
                                    ("nrec", 1, 3), ("blanks", 0, 2), ("lead", 0, 2), ("trail", 0, 2), ("tabs", 0, 1)],
       pre=pre, case=case_pool, split=["nrec", "blanks", "tabs"], tiers=LIM)


def h_line(name: str, sig: str) -> bool:
  """
  pre: ok_piece(name, 0) and ok_piece(sig, 0)
  post: _
  """
  # single line, pieces symbolic through the real regex match
  import miros.hsm as hsm
  line = "[2017-11-05 15:17:39.424492] [" + name + "] e->" + sig + "() armed->armed"
  with hsm.stripped(line) as one:
    ok = (one == "[" + name + "] e->" + sig + "() armed->armed")
  return verdict_symbolic([name, sig], ok, "single-line-timestamp-kept")


def case_line(name, sig):
  import miros.hsm as hsm
  line = "[2017-11-05 15:17:39.424492] [" + name + "] e->" + sig + "() armed->armed"
  with hsm.stripped(line) as one:
    if one != "[" + name + "] e->" + sig + "() armed->armed":
      return FAIL("single-line-timestamp-kept", "%r -> %r" % (line, one))
  return PASS()


CASES["h_line"] = case_line


def set_tier(tier):
  set_tier_all(globals(), tier)


def jobs(tier):
  out = jobs_all(globals(), tier)
  out.append({"harness": "h_line", "part": {"tier": tier, "L": 1 if tier == "quick" else 2}, "expected": None, "timeout": 300 if tier == "quick" else 1200})
  return out


# ---- unbounded part: regular-language queries on the timestamp pattern ------------------------------------
def captured_match_patterns():
  import miros.hsm as hsm
  import re as real_re
  seen = []

  class Recorder:
    def __getattr__(self, n):
      return getattr(real_re, n)

    def match(self, pattern, string, *a):
      seen.append(pattern)
      return real_re.match(pattern, string, *a)

  saved = hsm.re
  hsm.re = Recorder()
  try:
    with hsm.stripped("[2017-11-05 15:17:39.424492] [n] e->s() a->b") as _:
      pass
  finally:
    hsm.re = saved
  return seen


def solver_part(tier, known):
  import time
  import re._parser as sp
  import re._constants as sc
  import z3
  from vf import rez3
  t0 = time.time()
  out = {"violations": [], "inconclusive": [], "coverage": {}, "samples": [], "evaluations": 0, "distinct_nontrivial": 0}
  pats = captured_match_patterns()
  if len(pats) != 1:
    out["inconclusive"].append("expected one re.match pattern in item_without_timestamp, saw %r" % (pats,))
    return out
  pat = pats[0]
  try:
    bad = rez3.validate(pat, "[] 0123456789-:.ax>()e", n=500 if tier == "quick" else 2000, maxlen=14, mode="match")
    toks = list(sp.parse(pat))
    gi = [i for i, (op, av) in enumerate(toks) if op == sc.SUBPATTERN]
    if len(gi) != 1:
      raise NotImplementedError("pattern has %d groups" % len(gi))
    P = rez3._conv(toks[:gi[0]])
    G = rez3._conv(toks[gi[0]][1][3])
  except NotImplementedError as ex:
    out["inconclusive"].append("pattern %r uses a construct the translator does not know: %s" % (pat, ex))
    return out
  if bad:
    out["inconclusive"].append("translation of %r disagrees with re.match on %d generated strings" % (pat, bad))
    return out
  D = z3.Range("0", "9")
  Re, C = z3.Re, z3.Concat

  def rep(r, n):
    return C(*([r] * n)) if n > 1 else r
  TS = C(z3.Plus(D), Re("-"), rep(D, 2), Re("-"), rep(D, 2), Re(" "), rep(D, 2), Re(":"), rep(D, 2), Re(":"), rep(D, 2), Re("."), rep(D, 6))
  nonl = z3.Diff(z3.AllChar(z3.ReSort(z3.StringSort())), z3.Union(*[Re(c) for c in "\n\r\x0b\x0c\x1c\x1d\x1e\x85\u2028\u2029"]))
  REM = z3.Plus(nonl)
  LINE = C(z3.Star(Re(" ")), Re("["), TS, Re("] "), REM)
  s, p1, r1, p2, r2 = z3.String("s"), z3.String("p1"), z3.String("r1"), z3.String("p2"), z3.String("r2")
  queries = []

  def ask(name, cons, means):
    sol = z3.Solver()
    sol.set("timeout", 120000 if tier == "quick" else 600000)
    sol.add(*cons)
    t1 = time.time()
    r = str(sol.check())
    wit = None
    if r == "sat":
      try:
        wit = sol.model()[s].as_string()
      except Exception:
        wit = str(sol.model())
    queries.append({"query": name, "result": r, "seconds": round(time.time() - t1, 2), "witness": wit, "unsat_means": means})
    return r, wit

  g, _ = ask("guard: the language of timestamped trace lines is inhabited", [z3.InRe(s, LINE)], "(must be sat)")
  if g != "sat":
    out["inconclusive"].append("vacuity guard failed")
  ML = rez3.match_language(pat)
  ra, wa = ask("a timestamped trace line that the pattern does not match", [z3.InRe(s, LINE), z3.Not(z3.InRe(s, ML))],
               "every line '[<strftime %Y-%m-%d %H:%M:%S.%f>] <anything non-empty>' (any leading blanks) is recognised, whatever the field values")
  # a second split of the same line needs two timestamp prefixes one of which is a proper prefix of the other:
  # if the prefix language is prefix-free the captured remainder is unique (pure regular-language query, no word equations)
  anyc = z3.AllChar(z3.ReSort(z3.StringSort()))
  rb, wb = ask("a timestamp prefix that is a proper prefix of another timestamp prefix", [z3.InRe(s, P), z3.InRe(s, C(P, z3.Plus(anyc)))],
               "the prefix language is prefix-free, so the split is unique: group(1) is exactly the text after the timestamp, for lines of any length")
  out["coverage"] = {"regular_language_queries": queries, "pattern_captured_from_running_code": pat,
                     "translation_validated_on_strings": 500 if tier == "quick" else 2000}
  out["evaluations"] = len(queries)
  out["samples"] = [{"query": q["query"], "result": q["result"]} for q in queries]
  for r, w, what in ((ra, wa, "recognition"), (rb, wb, "uniqueness")):
    if r == "unknown":
      out["inconclusive"].append("z3 answered unknown for the %s query" % what)
    elif r == "sat":
      oc = case_witness(w)
      if not oc.ok:
        out["violations"].append({"harness": "regular-language", "case": [w], "sig": oc.sig, "detail": oc.detail})
      else:
        out["inconclusive"].append("z3 witness %r for the %s query does not misbehave on the real code" % (w, what))
  out["solver_s"] = round(time.time() - t0, 2)
  return out


def case_witness(line):
  """a line '[timestamp] rest' must be stripped to 'rest'"""
  import miros.hsm as hsm
  import re as _re
  m = _re.match(r" *\[\d+-\d\d-\d\d \d\d:\d\d:\d\d\.\d{6}\] ", line)
  if not m:
    return PASS()
  want = line[m.end():]
  with hsm.stripped(line) as one:
    got = one if isinstance(one, str) else (one[0] if one else None)
  if got != want:
    return FAIL("timestamp-not-removed", "%r -> %r expected %r" % (line, got, want))
  return PASS()


CASES["regular-language"] = case_witness
