"""C07 Active-object publish/subscribe works in every configuration (DESIGN 6/C07)."""
from vf.core import PASS, FAIL
from vf.family import Family, set_tier_all, jobs_all
from vf import fabric
from vf.queued import WouldBlock

PROP = "C07"
PART = {}
FUNCTIONS = ["miros.activeobject.ActiveObject.subscribe/subscribed/_subscribe (+append_subscribe_to_spy)",
             "miros.activeobject.ActiveObject.publish/_publish (+append_publish_to_spy)", "miros.activeobject.ActiveObject.top (meta signals)",
             "miros.activeobject.ActiveObject.start_at/__start/run_event", "miros.hsm.HsmWithQueues.next_rtc",
             "miros.activeobject.ActiveFabricSource.subscribe/subscribed/publish/thread_runner_fifo/thread_runner_lifo"]
ASSUMPTIONS = [
  "E2 part: a caller runs the real ActiveObject.subscribe (run-time path: __thread_running, subscribed, _subscribe -> fabric.subscribe), post_fifo and "
  "publish on a started object; the delivery thread of the subscription's kind runs the real thread_runner (for lifo: LockingDeque.appendleft on the object's "
  "queue), the object's own thread runs run_event -> next_rtc with a dispatch stub; all translated from /repo's source on this run; ghost reference deque as in C04",
  "E2 part, several subscribers: 2-3 threads call the real ActiveFabricSource.subscribe for one signal at the same time (different queues, or the same queue), "
  "with or without a queue that subscribed before; asserted when all have returned: every queue that subscribed is in the signal's registry exactly once "
  "(complete: the programs are loop-free and the adequacy query is unsat at the computed bound)",
  "threads are recorded stand-ins; after the API calls every thread body (active objects' run_event, the two delivery bodies) is pumped in a fixed "
  "round-robin until nothing is left to do (phase interleaving); blocking waits end a pump",
  "one signal NEWS; a bystander object that never subscribed checks 'no one else'",
]
OUTSIDE = ["schedules other than the phase round-robin", "more than 2 prior subscribers"]
EXPLANATION = ("Bounded symbolic execution (CrossHair/z3) over the configuration space: subscriber with/without spy_on, named/unnamed, subscribing "
               "before start_at, after it from outside or from one of its handlers, fifo/lifo; 0-2 other objects (spied or not) already subscribed; "
               "publisher = the subscriber itself, another started object (spied or not), or an object that publishes before it is started; 1-2 "
               "publications. Oracle: every object that subscribed before a publication gets exactly one dispatch of NEWS per publication; objects "
               "that did not subscribe get none.")
RULE = "one case per configuration tuple; non-trivial = at least one other subscriber or an un-spied participant"
LIM = {"quick": dict(NO=1), "thorough": dict(NO=2)}


def bounds(tier):
  d = dict(LIM[tier]); d["meaning"] = ("NO = max other prior subscribers; ds/ns subscriber decorated/named; when 0 before start,1 after from outside,2 from a handler; "
                                       "kind 0 fifo/1 lifo; others mask = which others are decorated; prole 0 subscriber publishes,1 another started object,2 an object "
                                       "that publishes before its start_at; pd publisher decorated; npub publications; okind 1 = the other subscribers use the opposite kind (fifo/lifo) of the subscriber")
  return d


def pre(v, lim):
  no = v["no"]
  if no > lim["NO"]:
    return False
  top = 1 if no == 0 else (2 if no == 1 else 4)
  if v["omask"] >= top:
    return False
  if v["prole"] == 0 and v["pd"] != 0:
    return False
  if v["okind"] == 1 and no == 0:
    return False
  return True


class Obj:
  pass


def make(ao, hsm, name, deco, kind):
  from miros.event import Event, signals, return_status
  o = Obj()
  o.log = []

  def st(chart, e):
    if e.signal in (signals.ENTRY_SIGNAL, signals.INIT_SIGNAL, signals.EXIT_SIGNAL):
      return return_status.HANDLED
    if e.signal_name == "NEWS":
      o.log.append(e.payload)
      return return_status.HANDLED
    if e.signal_name == "SUBNOW":
      chart.subscribe(Event(signal="NEWS"), queue_type=kind)
      return return_status.HANDLED
    if e.signal_name == "PUBNOW":
      chart.publish(Event(signal="NEWS", payload=e.payload))
      return return_status.HANDLED
    chart.temp.fun = chart.top
    return return_status.SUPER
  st.__name__ = "st_" + (name or "anon")
  o.state = hsm.spy_on(st) if deco else st
  o.a = ao.ActiveObject(name=name)
  return o


def pump_all(objs):
  for _ in range(4):
    for o in objs:
      t = o.a.thread
      if t is not None and t.is_alive():
        try:
          t.target(*t.args)
        except WouldBlock:
          pass
    fabric.pump_fabric()


def case(ds, ns, when, kind, no, omask, prole, pd, npub, okind=0):
  hsm, ao = fabric.install()
  from miros.event import Event
  K = "lifo" if kind else "fifo"
  OK = K if not okind else ("fifo" if kind else "lifo")      # the other subscribers use the same kind or the opposite one
  what = "subscriber(deco=%d,named=%d,when=%s,%s) others=%d mask=%d publisher=%s(deco=%d) pubs=%d" % (
    ds, ns, ["before-start", "after-start", "from-handler"][when], K, no, omask, ["self", "other-started", "before-its-start"][prole], pd, npub + 1) + (" others-subscribe-%s" % OK if okind else "")
  try:
    others = []
    for i in range(no):
      o = make(ao, hsm, "other%d" % i, (omask >> i) & 1, OK)
      o.a.start_at(o.state)
      o.a.subscribe(Event(signal="NEWS"), queue_type=OK)
      others.append(o)
    by = make(ao, hsm, "bystander", 1, K)
    by.a.start_at(by.state)
    S = make(ao, hsm, "subscriber" if ns else None, ds, K)
    if when == 0:
      S.a.subscribe(Event(signal="NEWS"), queue_type=K)
      S.a.start_at(S.state)
    elif when == 1:
      S.a.start_at(S.state)
      S.a.subscribe(Event(signal="NEWS"), queue_type=K)
    else:
      S.a.start_at(S.state)
      S.a.post_fifo(Event(signal="SUBNOW"))
    objs = others + [by, S]
    if prole == 0:
      P = S
    else:
      P = make(ao, hsm, "publisher", pd, K)
      if prole == 1:
        P.a.start_at(P.state)
      objs.append(P)
    pump_all(objs)          # subscriptions settle before the first publication
    for n in range(npub + 1):
      P.a.publish(Event(signal="NEWS", payload=n))
      if prole == 2 and n == 0:
        P.a.start_at(P.state)
      pump_all(objs)
  except Exception as ex:
    return FAIL("raised:%s" % type(ex).__name__, "%s: %r" % (what, ex))
  want = list(range(npub + 1))
  for o, role in [(S, "subscriber")] + [(x, "other-subscriber") for x in others]:
    if sorted(o.log, key=str) != want:
      if len(o.log) < len(want):
        why = "unspied" if ((o is S and not ds) or (o is not S and not ((omask >> others.index(o)) & 1))) else ("unspied-publisher" if (prole != 0 and not pd) or (prole == 0 and not ds) else ("shadowed" if no and when else "lost"))
        return FAIL("publication-missing:%s:%s" % (role, why), "%s: %s got %s expected %s" % (what, role, o.log, want))
      return FAIL("publication-duplicated:%s" % role, "%s: %s got %s expected %s" % (what, role, o.log, want))
  for o, role in [(by, "bystander")] + ([(P, "publisher")] if prole != 0 else []):
    if o.log:
      return FAIL("delivered-to-non-subscriber:%s" % role, "%s: %s got %s" % (what, role, o.log))
  return PASS(nontrivial=(no > 0 or not ds or (prole != 0 and not pd)))


Family(globals(), "h_pubsub", params=[("ds", 0, 1), ("ns", 0, 1), ("when", 0, 2), ("kind", 0, 1), ("no", 0, 2), ("omask", 0, 3), ("prole", 0, 2), ("pd", 0, 1), ("npub", 0, 1), ("okind", 0, 1)],
       pre=pre, case=case, split=["ds", "ns"], tiers=LIM)


def set_tier(tier):
  set_tier_all(globals(), tier)


def jobs(tier):
  return jobs_all(globals(), tier)

def e2_scenarios(tier):
  a = dict(kind="fifo", pending=0)
  b = dict(kind="fifo", pending=1, subscribe_first=False)
  if tier == "quick":
    # with an event already pending the publication arrives while the object's thread is busy with it (a wake-up may be lost there)
    return [(a, 30), (dict(kind="fifo", pending=1), 30)]
  return [(a, 40), (b, 40), (dict(kind="lifo", pending=0), 40), (dict(kind="fifo", pending=1), 42)]


def deadlock_bound(kw, K):
  """the quiescence query needs the whole life of the scenario (subscribe, post, publish, delivery, both dispatches and the object thread
  back in its wait): 32 steps with one pending event; it is cheaper than the safety query, so it gets the larger bound"""
  return max(K, 36) if kw.get("pending") else K


DIFF_KW = dict(kind="fifo", pending=1, subscribe_first=False)


# ---- E2 part: the object's run-time subscribe, posts and publish against the delivery thread and its own thread, every interleaving -------
def e2_specs(tier):
  out = []
  to = 900 if tier == "quick" else 3000
  for (kw, K) in e2_scenarios(tier):
    out.append(dict(scenario="ao_pubsub", kwargs=kw, kind="reach", K=K + 10, pred="all_dispatched", timeout=to))
    out.append(dict(scenario="ao_pubsub", kwargs=kw, kind="safety", K=K, pred="c04_bad", timeout=to, replay="ao_pubsub_replay"))
    out.append(dict(scenario="ao_pubsub", kwargs=kw, kind="deadlock", K=deadlock_bound(kw, K), pred="quiescent_wrong", timeout=to, replay="ao_pubsub_replay"))
  # several objects subscribe to one signal at once, each from its own thread ("regardless of which other active objects ... subscribed")
  for (kw, K) in subscriber_scenarios(tier):
    out.append(dict(scenario="subscribers", kwargs=kw, kind="reach", K=K, pred="subscribers_done", timeout=to))
    out.append(dict(scenario="subscribers", kwargs=kw, kind="safety", K=K, pred="subscription_lost", timeout=to, replay="subscribers_replay"))
    out.append(dict(scenario="subscribers", kwargs=kw, kind="deadlock", K=K, pred="subscribers_open", timeout=to, replay="subscribers_replay"))
    out.append(dict(scenario="subscribers", kwargs=kw, kind="adequacy", K=K, timeout=to))
  return out


def subscriber_scenarios(tier):
  """the subscriber programs have one bounded loop (the walk over the queues registered so far): K = number of operations + 2 per thread + 2 + the
  walk's steps covers every behaviour, which the adequacy query confirms; computed from the translated code"""
  from vf.e2 import check, ir
  kws = [dict(kind="fifo", prior=False, n=2), dict(kind="fifo", prior=True, n=2)]
  if tier != "quick":
    kws += [dict(kind="lifo", prior=False, n=2), dict(kind="fifo", prior=False, n=2, same=True), dict(kind="fifo", prior=True, n=3), dict(kind="lifo", prior=True, n=2, same=True)]
  out = []
  for kw in kws:
    _sc, sysm = check.build("subscribers", kw)
    nops = sum(1 for p in sysm.programs for n in p.nodes if isinstance(n, ir.Op) and (p.tid, n.id) not in sysm.invisible)      # steps are taken at visible operations
    # + each thread's entry and exit step + the walk over the registered queues (one step per element, the only loop)
    out.append((kw, min(60, nops + 2 * len(sysm.programs) + 2 + kw["n"] * (kw["n"] + 1))))
  return out


def subscribers_signature(spec, r):
  real = r["replay"]["real"]
  kw = spec["kwargs"]
  if real["errors"]:
    return ("subscribe-raised", "%s; schedule: %s" % (real["errors"], r["trace"]), True)
  if spec["kind"] == "deadlock":
    return ("subscriber-blocked-for-ever", "finished threads %s; schedule: %s" % (real["finished"], r["trace"]), len(real["finished"]) < kw["n"])
  want = sorted(([0] if kw.get("same") else list(range(kw["n"]))) + ([kw["n"]] if kw.get("prior") else []))
  got = real["registered_queues"]
  return ("subscription-lost:concurrent-subscribers", "%d threads subscribed to one signal at the same time%s: the real registry holds queues %s, expected each of %s once; "
          "schedule: %s" % (kw["n"], " (another queue had subscribed before)" if kw.get("prior") else "", got, want, r["trace"]), sorted(got) != want)


def e2_signature(spec, r):
  if spec["scenario"] == "subscribers":
    return subscribers_signature(spec, r)
  real = r["replay"]["real"]
  kw = spec["kwargs"]
  if real["errors"]:
    return ("pubsub-raised", "%s; schedule: %s" % (real["errors"], r["trace"]), True)
  log = real["dispatch_log"]
  if spec["kind"] == "deadlock":
    want = 1 + kw["pending"]
    return ("publication-not-dispatched-once:interleaving", "everybody idle: the object dispatched %s (a %s subscription made at run time, %d pending event(s)), queue %s, tokens %d; schedule: %s" % (
      log, kw["kind"], kw["pending"], real["deque"], real["tokens"], r["trace"]), log.count("NEWS") != 1 or len(log) != want)
  if len(set(log)) < len(log):
    return ("publication-dispatched-twice:interleaving", "dispatch log %s; schedule: %s" % (log, r["trace"]), True)
  return ("%s-subscription-wrong-end-of-queue:interleaving" % kw["kind"], "the object dispatched %s; a %s subscription puts the publication at the %s of its queue; schedule: %s" % (
    log, kw["kind"], "front" if kw["kind"] == "lifo" else "back", r["trace"]), True)


def solver_part(tier, known):
  from vf.e2 import propbase, harness
  FUNCTIONS.extend(x for x in propbase.functions_of("ao_pubsub", e2_scenarios(tier)[0][0]) if x not in FUNCTIONS)
  n = 5 if tier == "quick" else 20
  FUNCTIONS.extend(x for x in propbase.functions_of("subscribers", subscriber_scenarios(tier)[1][0]) if x not in FUNCTIONS)

  def differential():
    a = harness.ao_pubsub_differential(DIFF_KW, n, seed=43)
    b = harness.subscribers_differential(subscriber_scenarios(tier)[1][0], 2 * n, seed=47)
    return {"schedules": a["schedules"] + b["schedules"], "visible_operations": a["visible_operations"] + b["visible_operations"],
            "disagreements": a["disagreements"] + [dict(x, schedule="subscribers-%s" % x.get("schedule")) for x in b["disagreements"]]}
  out = propbase.run(e2_specs(tier), known, e2_signature, jobs=8, differential=differential)
  out["coverage"]["e2_bounds"] = [{"kwargs": k, "K": K} for k, K in e2_scenarios(tier) + subscriber_scenarios(tier)]
  return out
