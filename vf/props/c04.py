"""C04 An active object dispatches every posted event exactly once, in queue order (DESIGN 6/C04).  Engine E2."""
from vf.e2 import propbase

PROP = "C04"
PART = {}
LEVEL = "model_checking"
CASES = {}
SCN = "posting"
FUNCTIONS = []
ASSUMPTIONS = [
  "threads = P posters calling the real ActiveObject.post_fifo/post_lifo (kind of every post is a symbolic input bit) and the consumer running the real "
  "ActiveObject.run_event -> LockingDeque.wait -> HsmWithQueues.next_rtc; all translated from /repo's source on this run",
  "dispatch(e) is a stub that counts the dispatch of e in ghost state and, under a symbolic input bit, makes one handler-side post (fifo or lifo) "
  "through the same translated post_fifo/post_lifo while the first event is being handled",
  "ghost reference deque: every insertion into the pending-event deque is applied to a reference deque with the *intended* discipline of the inserted event "
  "(fifo -> back, lifo -> front); every popleft must return the reference's front",
  "run-to-completion steps cannot overlap in this model by construction: only the consumer thread's program contains next_rtc (checked structurally: "
  "the translated source list of every poster lacks HsmWithQueues.next_rtc)",
  "timer and fabric threads post through the same LockingDeque.append/appendleft, i.e. they are posters in this model; their own loops are C06/C10's subject",
  "model objects, atomicity and reduction as for C05",
]
OUTSIDE = ["queue overflow (capacity >= number of events in flight, as the statement excludes displaced events; overflow behaviour is C16)",
           "more than 2 posters / 3 events (quick), 3 posters / 4 events (thorough)", "schedules longer than K steps"]
EXPLANATION = ("Bounded model checking (QF_BV, solver portfolio) of the translated posters x consumer system with a ghost reference deque and ghost dispatch "
               "counters: for every schedule and every mix of fifo/lifo posts up to K steps no event is popped out of its intended order, none is dispatched "
               "twice, no thread crashes, and in every state where no thread can move with all posters returned the queue is empty and every posted event was "
               "dispatched exactly once (no lost wake-up). Vacuity guard: the all-dispatched quiescent state is reachable.")
RULE = "one evaluation = one BMC query over all schedules and inputs up to K; non-trivial = decides a property clause"


def scenarios(tier):
  two = dict(nposters=2, posts=(1, 1), capacity=3)
  hp = dict(nposters=1, posts=(2,), capacity=3, handler_post=True)
  pend = dict(nposters=2, posts=(1, 1), capacity=3, pending=1)
  three = dict(nposters=3, posts=(1, 1, 1), capacity=4)
  # a pre-state with one spare wake-up token (a state real runs reach after a spurious wake-up) and one post: complete within K (adequacy)
  spare = dict(nposters=1, posts=(1,), capacity=3, spare=1)
  if tier == "quick":
    return [(two, 22), (hp, 22), (spare, 26)]
  return [(two, 26), (hp, 26), (pend, 24), (three, 20), (spare, 30), (dict(nposters=2, posts=(1, 1), capacity=3, spare=1), 24)]      # sized so that every query answers within the time limit (measured)


def bounds(tier):
  return {"scenarios": [{"kwargs": k, "K": a} for (k, a) in scenarios(tier)],
          "meaning": "posts[i] = posts of poster i, each fifo or lifo (symbolic); handler_post = the first event's handler posts one more event (symbolic bit, symbolic kind); "
                     "pending = events queued before the start; K = unrolling depth"}


def jobs(tier):
  return []


def specs(tier):
  out = []
  to = 900 if tier == "quick" else 3000
  for (kw, K) in scenarios(tier):
    out.append(dict(scenario=SCN, kwargs=kw, kind="reach", K=K + 14, pred="all_dispatched", timeout=to))
    out.append(dict(scenario=SCN, kwargs=kw, kind="safety", K=K, pred="c04_bad", timeout=to, replay="posting_replay"))
    out.append(dict(scenario=SCN, kwargs=kw, kind="deadlock", K=K, pred="quiescent_wrong", timeout=to, replay="posting_replay"))
  return out


def signature(spec, r):
  rep = r["replay"]
  real = rep["real"]
  if spec["pred"] == "c04_bad":
    log = real["dispatch_log"]
    if len(set(log)) < len(log):
      return ("event-dispatched-twice", "real dispatch log %s; schedule: %s" % (log, r["trace"]), True)
    if any("->" in t for t in r["trace"][-1:]) or any("exc:" in t for t in r["trace"]):
      return ("thread-crashed", "schedule: %s" % (r["trace"],), True)
    same = log == rep["model_dispatch_log"]
    return ("dispatch-out-of-queue-order", "the real object dispatched %s although the posts' kinds %s give another order; schedule: %s" % (
      log, r.get("inputs"), r["trace"]), same)
  lost = bool(real["deque"]) and real["tokens"] == 0
  n_expected = sum(spec["kwargs"]["posts"])
  missing = len(real["dispatch_log"]) < n_expected
  return ("quiescent-with-pending-events" if lost else "quiescent-but-not-every-event-dispatched-once",
          "all posters returned, the consumer waits; real queue holds %s with %d wake-up tokens, dispatched %s; schedule: %s" % (
            real["deque"], real["tokens"], real["dispatch_log"], r["trace"]), lost or missing)


def solver_part(tier, known):
  from vf.e2 import harness, check
  FUNCTIONS[:] = propbase.functions_of(SCN, scenarios(tier)[1][0])
  n = 12 if tier == "quick" else 60
  out = propbase.run(specs(tier), known, signature,
                     differential=lambda: harness.posting_differential(dict(nposters=1, posts=(2,), capacity=3, handler_post=True), n, seed=7))
  # structural clause: run-to-completion steps belong to one thread
  sc, sysm = check.build(SCN, scenarios(tier)[0][0])
  for p in sysm.programs:
    if p.name != "consumer" and any("next_rtc" in s or "dispatch" in s for s in p.sources):
      out["inconclusive"].append("thread %s contains a dispatch path: run-to-completion steps may overlap (not modelled)" % p.name)
  return out
