"""C06 The fabric delivers each publication once to every subscriber and to no one else (DESIGN 6/C06)."""
from vf.core import PASS, FAIL
from vf.family import Family, set_tier_all, jobs_all
from vf import fabric

PROP = "C06"
PART = {}
FUNCTIONS = ["miros.activeobject.ActiveFabricSource.subscribe/_subscribe", "miros.activeobject.ActiveFabricSource.publish",
             "miros.activeobject.ActiveFabricSource.thread_runner_fifo", "miros.activeobject.ActiveFabricSource.thread_runner_lifo",
             "miros.activeobject.FabricEvent", "queue.PriorityQueue (real heap)"]
ASSUMPTIONS = [
  "E2 part: a caller thread runs a script of real ActiveFabricSource.subscribe / publish calls while the real thread_runner_fifo / thread_runner_lifo run as "
  "delivery threads, all translated from /repo's source on this run; the priority queues are contract models (items leave by priority, then arrival; the real "
  "heap and FabricEvent ordering are the E1 part's subject), the registries are dict models whose values are python lists created at run time (list iterators "
  "advance one step at a time against the live list), subscriber queues are plain deques",
  "inductive step on the registry: the pre-state (which queues are subscribed to which (signal, kind)) is built through the real subscribe "
  "while the plain deques hold distinct tokens (so that building is trivially right), then the tokens are removed so that distinct deques "
  "compare equal by content; only reachable registries are used",
  "delivery phase: the two real delivery bodies are run to completion after the publication with a counting run flag (phase interleaving); "
  "PriorityQueue.get raises where it would block",
  "signals A (the one subscribed by the operation) and B; by symmetry the operation always subscribes to A",
]
OUTSIDE = ["interleavings of subscribe with a delivery loop iteration in progress", "more than N queues, more than two signals"]
EXPLANATION = ("Bounded symbolic execution (CrossHair/z3) of one subscribe call from a symbolic registry pre-state over up to N queues (plain "
               "deques with equal contents, or LockingDeques), followed by one publication and the delivery bodies. Oracle: a dict (signal, kind) -> "
               "list of queue identities: after the call the registry holds exactly the oracle's identities (nothing lost, nothing duplicated, "
               "idempotent), and after delivery every queue received the event once per kind it subscribed with, all others nothing.")
RULE = ("one case per (number of queues, queue type, three subscription masks, subscribing queue, kind, signal form, published signal); "
        "non-trivial = at least two queues share the list the operation touches")
LIM = {"quick": dict(N=2), "thorough": dict(N=3)}


def bounds(tier):
  d = dict(LIM[tier]); d["meaning"] = "N = max pre-registered queues (the subscribing queue may be one more); masks over queues for (A,kind), (A,other kind), (B,kind)"
  return d


def pre(v, lim):
  nq = v["nq"]
  if nq > lim["N"]:
    return False
  top = 1 << nq
  if v["m1"] >= top or v["m2"] >= top or v["m3"] >= top:
    return False
  if v["j"] > nq:
    return False
  return True


def case(nq, qkind, m1, m2, m3, j, kind, form, pub):
  hsm, ao = fabric.install()
  from collections import deque
  from miros.event import Event, signals
  af = ao.ActiveFabricSource()
  A, B = Event(signal="A"), Event(signal="B")
  kinds = ["fifo", "lifo"]
  K, OK_ = kinds[kind], kinds[1 - kind]
  n_all = nq + 1
  if qkind == 0:
    qs = [deque(maxlen=10) for _ in range(n_all)]
    for i, q in enumerate(qs):
      q.append("token-%d" % i)       # distinct contents while the pre-state is built
  else:
    qs = [ao.LockingDeque() for _ in range(n_all)]
  reg = {("A", "fifo"): [], ("A", "lifo"): [], ("B", "fifo"): [], ("B", "lifo"): []}
  for i in range(nq):
    for (mask, sig, ev, kk) in ((m1, "A", A, K), (m2, "A", A, OK_), (m3, "B", B, K)):
      if (mask >> i) & 1:
        af.subscribe(qs[i], ev, kk)
        reg[(sig, kk)].append(i)
  if qkind == 0:
    for q in qs:
      q.clear()                      # equalise: distinct deques now compare equal
  what = "nq=%d %s masks=(%d,%d,%d) queue %d subscribes A/%s (%s), publish %s" % (
    nq, "deques" if qkind == 0 else "LockingDeques", m1, m2, m3, j, K, "number" if form else "Event", "AB"[pub])

  def registry_ids():
    out = {}
    for kk, table in (("fifo", af.fifo_subscriptions), ("lifo", af.lifo_subscriptions)):
      for sig in ("A", "B"):
        out[(sig, kk)] = [next(i for i, q in enumerate(qs) if q is x) for x in table.get(sig, [])]
    return out

  before = registry_ids()
  if {k: sorted(v) for k, v in before.items()} != {k: sorted(v) for k, v in reg.items()}:
    return FAIL("harness:pre-state-not-built", "%s: %s vs %s" % (what, before, reg))
  try:
    af.subscribe(qs[j], signals.A if form else A, K)
  except Exception as ex:
    return FAIL("subscribe-raised:" + type(ex).__name__, "%s: %r" % (what, ex))
  if j not in reg[("A", K)]:
    reg[("A", K)].append(j)
  after = registry_ids()
  for key in reg:
    got, want = sorted(after[key]), sorted(reg[key])
    if got != want:
      lost = [x for x in want if x not in got]
      dup = [x for x in set(got) if got.count(x) > 1]
      sig = "subscription-lost" if lost else ("subscription-duplicated" if dup else "subscription-added")
      return FAIL(sig, "%s: registry %s now holds queues %s, expected %s" % (what, key, after[key], reg[key]))
  ev = Event(signal="AB"[pub], payload="the-publication")
  af.publish(ev)
  fabric.pump_direct(af, "fifo", 10)
  fabric.pump_direct(af, "lifo", 10)
  for i, q in enumerate(qs):
    items = list(q.deque) if qkind else list(q)
    got = sum(1 for x in items if x is ev)
    want = (1 if i in reg[("AB"[pub], "fifo")] else 0) + (1 if i in reg[("AB"[pub], "lifo")] else 0)
    if got != want or len(items) != want:
      sig = "delivery-missing" if got < want else "delivery-extra"
      return FAIL(sig, "%s: queue %d received %d copies (%d items), expected %d" % (what, i, got, len(items), want))
  share = len(reg[("A", K)])
  return PASS(nontrivial=share >= 2)


Family(globals(), "h_registry", params=[("nq", 1, 3), ("qkind", 0, 1), ("m1", 0, 7), ("m2", 0, 7), ("m3", 0, 7), ("j", 0, 3), ("kind", 0, 1), ("form", 0, 1), ("pub", 0, 1)],
       pre=pre, case=case, split=["nq", "qkind", "kind"], tiers=LIM)


def set_tier(tier):
  set_tier_all(globals(), tier)


def jobs(tier):
  return jobs_all(globals(), tier)

def e2_scenarios(tier):
  late = dict(script="late-subscriber", kinds=("fifo",))
  resub = dict(script="resubscribe", kinds=("fifo",))
  two = dict(script="two-kinds", kinds=("fifo", "lifo"))
  during = dict(script="resubscribe-during-delivery", kinds=("fifo",))
  both = dict(script="two-kinds-one-publication", kinds=("fifo", "lifo"))      # both delivery threads at work at once (complete at K=28)
  if tier == "quick":
    return [(late, 32), (during, 36), (both, 28)]        # thorough uses K >= 40 throughout, where the adequacy query shows every behaviour is covered
  return [(late, 40), (resub, 40), (during, 40), (two, 38), (both, 28)]


DIFF_KW = dict(script="two-kinds", kinds=("fifo", "lifo"))


# ---- E2 part: the caller's subscribe/publish calls against the running delivery threads, every interleaving -------------------------------
def e2_specs(tier):
  out = []
  to = 900 if tier == "quick" else 3000
  for (kw, K) in e2_scenarios(tier):
    out.append(dict(scenario="fabric_delivery", kwargs=kw, kind="reach", K=K + 8, pred="fabric_all_delivered", timeout=to))
    out.append(dict(scenario="fabric_delivery", kwargs=kw, kind="safety", K=K, pred="fabric_overdelivery", timeout=to, replay="fabric_delivery_replay"))
    out.append(dict(scenario="fabric_delivery", kwargs=kw, kind="deadlock", K=K, pred="fabric_quiescent_wrong", timeout=to, replay="fabric_delivery_replay"))
    out.append(dict(scenario="fabric_delivery", kwargs=kw, kind="adequacy", K=K, timeout=to))
  return out


def e2_signature(spec, r):
  real = r["replay"]["real"]
  script = spec["kwargs"]["script"]
  if real["errors"]:
    return ("delivery-raised:" + script, "%s; schedule: %s" % (real["errors"], r["trace"]), True)
  from vf.e2 import check
  from vf.e2.preds import fabric_allowed
  sc, _sysm = check.build("fabric_delivery", spec["kwargs"])
  idx = {rid: i for i, rid in enumerate(sc.info["events"])}
  allowed = {q: [[idx[x] for x in alt] for alt in alts] for q, alts in fabric_allowed(sc).items()}
  wrong = [q for q in ("q0", "q1") if real[q] not in allowed[q]]
  if spec["kind"] == "safety":
    over = [q for q in ("q0", "q1") if len(real[q]) > max(len(a) for a in allowed[q])]
    return ("delivered-too-often:" + script, "script %s on the real fabric: queues %s / %s, allowed %s; schedule: %s" % (
      spec["kwargs"]["script"], real["q0"], real["q1"], allowed, r["trace"]), bool(over))
  return ("delivery-wrong-at-quiescence:" + script, "script %s on the real fabric, everybody idle: queues q0=%s q1=%s, allowed %s; schedule: %s" % (
    script, real["q0"], real["q1"], allowed, r["trace"]), bool(wrong))


def solver_part(tier, known):
  from vf.e2 import propbase, harness
  FUNCTIONS.extend(x for x in propbase.functions_of("fabric_delivery", e2_scenarios(tier)[0][0]) if x not in FUNCTIONS)
  n = 6 if tier == "quick" else 24
  out = propbase.run(e2_specs(tier), known, e2_signature, jobs=8,
                     differential=lambda: harness.fabric_delivery_differential(DIFF_KW, n, seed=41))
  out["coverage"]["e2_bounds"] = [{"kwargs": k, "K": K} for k, K in e2_scenarios(tier)]
  return out
