"""C10 Timed posts fire the requested number of times at the requested period (DESIGN 6/C10)."""
from vf.core import PASS, FAIL
from vf.family import Family, set_tier_all, jobs_all
from vf import fabric

PROP = "C10"
PART = {}
FUNCTIONS = ["miros.activeobject.ActiveObject.post_fifo/post_lifo (timed form)", "miros.activeobject.ActiveObject.__post_event",
             "post_event_thread_runner (closure inside __post_event)", "miros.activeobject.LockingDeque.append/appendleft"]
ASSUMPTIONS = [
  "E2 part: the caller runs the real post_fifo/post_lifo(period, times, deferred) -> __post_event translated whole; the timer thread it creates is compiled "
  "from the real post_event_thread_runner closure and runs against the caller and the object's own thread (run_event) under every interleaving; time.sleep "
  "is a step of arbitrary relative duration; clock instants are the E1 part's subject",
  "time is a symbolic variable: miros.activeobject.time is a stub whose sleep(p) advances a virtual clock and records the instant; the period is a "
  "small int that is only ever added to the clock",
  "the timer thread is a recorded stand-in; its real body (the closure) is run to completion after the post call (no other thread interferes: "
  "cancellation and stop are C11/C12/C31)",
  "times=0: the stub clock cuts the endless source at its (M+1)th sleep",
]
OUTSIDE = ["drift of real sleeps", "interleavings with other threads (covered for cancel/stop/reject by C11, C12, C31)"]
EXPLANATION = ("Bounded symbolic execution (CrossHair/z3) of a timed post_fifo/post_lifo with symbolic period, repeat count, deferral flag, queue kind "
               "and number of pending events. Oracle: the event is put into the queue exactly n times, at instants p,2p,..,np (deferred) or "
               "0,p,..,(n-1)p (not deferred), each time at the back (fifo) or the front (lifo); times=0 keeps posting every p (M posts before the cut, "
               "run flag still set); the source is tracked under the id that the call returned.")
RULE = "one case per (times, deferred, kind, period, pending, cut); non-trivial = at least two postings"
LIM = {"quick": dict(NT=4, PMAX=6, NP=2), "thorough": dict(NT=7, PMAX=8, NP=3)}
PERIODS = [1, 2, 3, 0.3, 0.27, 0.04, 4, 2.5]     # index p-1: whole and fractional seconds (not multiples of a nap length)


def bounds(tier):
  d = dict(LIM[tier]); d["meaning"] = "NT = max times; PMAX = periods PERIODS[0..PMAX-1] of %s;" % (PERIODS,) + " NP = max pending events; cut M in 1..3 for times=0"
  return d


def pre(v, lim):
  if v["n"] > lim["NT"] or v["p"] > lim["PMAX"] or v["np"] > lim["NP"]:
    return False
  if v["n"] != 0 and v["M"] != 1:
    return False
  return True


def case(n, deferred, kind, p, np_, M):
  hsm, ao = fabric.install()
  from miros.event import Event
  vt = fabric.VirtualTime(max_sleeps=(M if n == 0 else None))
  ao.time = vt
  a, log = fabric.make_active_object(ao, hsm)
  pend = [Event(signal="W_P%d" % i) for i in range(np_)]
  for e in pend:
    a.post_fifo(e)
  ev = Event(signal="W_TICK")
  puts = []
  ld = a.queue
  real_append, real_appendleft = ld.append, ld.appendleft
  ld.append = lambda item: (puts.append((vt.now, "back", item)), real_append(item))[1]
  ld.appendleft = lambda item: (puts.append((vt.now, "front", item)), real_appendleft(item))[1]
  p = PERIODS[p - 1]
  what = "times=%d deferred=%s kind=%s period=%s pending=%d" % (n, bool(deferred), "lifo" if kind else "fifo", p, np_)
  try:
    if kind:
      tid = a.post_lifo(ev, period=p, times=n, deferred=bool(deferred))
    else:
      tid = a.post_fifo(ev, period=p, times=n, deferred=bool(deferred))
  except Exception as ex:
    return FAIL("timed-post-raised:" + type(ex).__name__, "%s: %r" % (what, ex))
  ts = fabric.timer_threads()
  if len(ts) != 1 or not ts[0].started:
    return FAIL("no-timer-thread", "%s: %d timer threads" % (what, len(ts)))
  tracked = list(a.posted_events_queue)
  if len(tracked) != 1 or tracked[0].uuid != tid or tracked[0].signal_name != "W_TICK":
    return FAIL("source-not-tracked", "%s: %s" % (what, tracked))
  cut = False
  try:
    ts[0].run_body()
  except fabric.CutInfiniteSource:
    cut = True
  except Exception as ex:
    return FAIL("timer-body-raised:" + type(ex).__name__, "%s: %r" % (what, ex))
  mine = [(t, side) for (t, side, item) in puts if item is ev]
  side = "front" if kind else "back"
  if n == 0:
    count = M if deferred else M + 1
    if not cut:
      return FAIL("endless-source-ended", "%s: body returned after %d posts" % (what, len(mine)))
    if not tracked[0].task_run_event.is_set():
      return FAIL("endless-source-flag-cleared", what)
  else:
    count = n
    if cut:
      return FAIL("harness:cut", what)
  want, t = [], 0
  for i in range(count):
    if deferred or i > 0:
      t += p                     # the same additions the virtual clock makes
    want.append((t, side))
  if mine != want:
    if len(mine) != len(want):
      return FAIL("post-count", "%s: %d posts %s expected %d %s" % (what, len(mine), mine, len(want), want))
    if [s for _, s in mine] != [s for _, s in want]:
      return FAIL("post-side", "%s: %s expected %s" % (what, mine, want))
    return FAIL("post-instants", "%s: %s expected %s" % (what, mine, want))
  now = list(ld.deque)
  exp = list(pend)
  for _ in range(count):
    if kind:
      exp.insert(0, ev)
    else:
      exp.append(ev)
  if len(now) != len(exp) or any(x is not y for x, y in zip(now, exp)):
    return FAIL("queue-order", "%s: %s" % (what, [e.signal_name for e in now]))
  if log:
    return FAIL("harness:dispatched", what)
  return PASS(nontrivial=count >= 2)


Family(globals(), "h_timed", params=[("n", 0, 7), ("deferred", 0, 1), ("kind", 0, 1), ("p", 1, 8), ("np", 0, 3), ("M", 1, 3)],
       pre=pre, case=case, split=["kind", "deferred"], tiers=LIM)


def set_tier(tier):
  set_tier_all(globals(), tier)


def jobs(tier):
  return jobs_all(globals(), tier)


# ---- E2 part: the timer thread of an accepted timed post against the caller and the object's own thread, every interleaving --------------
def e2_scenarios(tier):
  a = dict(deferred=True, times=2, kind="fifo", capacity=2, existing=0, pending=1)
  b = dict(deferred=False, times=1, kind="lifo", capacity=2, existing=1, pending=0)
  c = dict(deferred=False, times=2, kind="fifo", capacity=2, existing=0, pending=0)
  d = dict(deferred=True, times=1, kind="lifo", capacity=2, existing=1, pending=1)
  # a third party cancels another tracked source while the post is being made: the new source must still fire exactly n times
  e = dict(deferred=False, times=1, kind="fifo", capacity=2, existing=1, pending=0, canceller="old")
  if tier == "quick":
    return [(a, 30), (b, 26), (e, 30)]
  return [(a, 36), (b, 32), (c, 34), (d, 32), (e, 36)]


def e2_specs(tier):
  out = []
  to = 900 if tier == "quick" else 3000
  for (kw, K) in e2_scenarios(tier):
    out.append(dict(scenario="rejecting", kwargs=kw, kind="reach", K=K + 8, pred="timed_all_posted", timeout=to))
    out.append(dict(scenario="rejecting", kwargs=kw, kind="safety", K=K, pred="timed_too_many", timeout=to, replay="rejecting_replay"))
    out.append(dict(scenario="rejecting", kwargs=kw, kind="deadlock", K=K, pred="timed_quiescent_wrong", timeout=to, replay="rejecting_replay"))
  return out


def e2_signature(spec, r):
  real = r["replay"]["real"]
  kw = spec["kwargs"]
  n = kw["times"]
  posted = real["rejected_event_in_queue"] + real["rejected_event_dispatched"]
  if real["outcome"].get("error") or real["outcome"].get("rejected"):
    return ("timed-post-failed", "%s; schedule: %s" % (real["outcome"], r["trace"]), True)
  if spec["kind"] == "safety":
    return ("posted-too-often:interleaving", "times=%d but the event was posted %d times on the real object; schedule: %s" % (n, posted, r["trace"]), posted > n)
  flag_up = any(real["new_flag_up"])
  return ("quiescent-but-timed-source-wrong", "nobody can move: times=%d, posted %d, dispatched %d, run flag up %s, tracked %d; schedule: %s" % (
    n, posted, real["rejected_event_dispatched"], flag_up, real["tracked"], r["trace"]),
    posted != n or real["rejected_event_dispatched"] != n or flag_up or real["tracked"] != kw["existing"] + 1)


def solver_part(tier, known):
  from vf.e2 import propbase, harness
  FUNCTIONS.extend(x for x in propbase.functions_of("rejecting", e2_scenarios(tier)[0][0]) if x not in FUNCTIONS)
  n = 5 if tier == "quick" else 20
  out = propbase.run(e2_specs(tier), known, e2_signature, jobs=8,
                     differential=lambda: harness.rejecting_differential(dict(deferred=True, times=2, kind="fifo", capacity=2, existing=0, pending=1), n, seed=37))
  out["coverage"]["e2_bounds"] = [{"kwargs": k, "K": K} for k, K in e2_scenarios(tier)]
  return out
