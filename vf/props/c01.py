"""C01 Transitions run exits, entries and initial transitions in UML order (DESIGN 6/C01)."""
from vf.core import ladder, verdict, concrete, PASS, FAIL
from vf import charts

PROP = "C01"
PART = {}
FUNCTIONS = ["miros.hsm.HsmEventProcessor.dispatch", "miros.hsm.HsmEventProcessor.trans_",
             "miros.hsm.HsmEventProcessor.trans", "miros.hsm.HsmEventProcessor.top"]
ASSUMPTIONS = [
  "pre-state installed directly (state.fun = temp.fun = handler of the current state): the only state a step inherits",
  "handlers follow the documented shape: log their action, return HANDLED/TRAN/UNHANDLED or name their parent with SUPER",
  "CrossHair/z3 decide which parameter tuples satisfy the precondition; each tuple is then executed concretely on the real code",
]
OUTSIDE = ["active chains longer than N states", "more than three consecutive initial transitions",
           "handlers that write temp.fun outside the trans/SUPER protocol"]
EXPLANATION = ("Bounded symbolic execution (CrossHair/z3) of the real dispatch/trans_ on the Y-with-tail chart family: "
               "trunk l, source branch a, target branch b, answering state k, target tsel, init hops j1..j3, pass mode, "
               "which of entry/exit/init are explicit. Every path over the stated ranges is CONFIRMED; the action log must equal "
               "the UML oracle exactly and the chart must rest in the last init target with state.fun is temp.fun.")
RULE = ("one case per parameter tuple satisfying the precondition (enumerated by the solver, count cross-checked); "
        "non-trivial = the oracle expects at least one exit or entry besides the offers")

LIM = {"quick": dict(N=8, l=3, a=3, b=4, j=5, hops=2, hx=(0, 7)),
       "thorough": dict(N=10, l=3, a=4, b=5, j=5, hops=3, hx=(0, 1, 2, 3, 4, 5, 6, 7))}
CUR = dict(LIM["quick"])


def bounds(tier):
  d = dict(LIM[tier])
  d["meaning"] = ("N = max states l+a+b+j1+j2+j3; l trunk, a source branch, b target branch, j max levels per init hop, "
                  "hops = consecutive initial transitions, hx = bitmask of entry/exit/init left implicit; pass mode both")
  return d


def pre_step(b, k, tsel, j1, j2, j3):
  """precondition over the symbolic parameters; l, a, pm, hx are fixed per partition (PART)"""
  c = CUR
  l, a = PART["l"], PART["a"]
  if not (0 <= b <= c["b"]):
    return False
  if not (0 <= j1 <= c["j"] and 0 <= j2 <= c["j"] and 0 <= j3 <= c["j"]):
    return False
  if c["hops"] < 3 and j3 != 0:
    return False
  if (j2 > 0 and j1 == 0) or (j3 > 0 and j2 == 0):
    return False
  if l + a + b + j1 + j2 + j3 > c["N"]:
    return False
  if not (0 <= k < l + a and 0 <= tsel < l + a + b):
    return False
  return True


def case_step(l, a, b, k, tsel, j1, j2, j3, pm, hx):
  from miros.hsm import HsmEventProcessor
  parent, react, init, cur, S, T = charts.y_family(l, a, b, k, tsel, j1, j2, j3, pm)
  ch = charts.Chart(parent, react, init, hx=hx)
  c = HsmEventProcessor()
  c.state.fun = ch.hs[cur]
  c.temp.fun = ch.hs[cur]
  exp, rest, kind = ch.oracle_dispatch(cur)
  try:
    c.dispatch(ch.Event(signal=ch.SIG))
  except Exception as ex:
    return FAIL("dispatch-raised:" + type(ex).__name__, "%r; log=%s expected=%s" % (ex, ch.log, exp))
  nontrivial = any(x[0] in ("ex", "en") for x in exp)
  if ch.log != exp:
    got_en = [x for x in ch.log if x[0] == "en"]
    exp_en = [x for x in exp if x[0] == "en"]
    got_ex = [x for x in ch.log if x[0] == "ex"]
    exp_ex = [x for x in exp if x[0] == "ex"]
    if got_ex != exp_ex:
      sig = "exit-sequence"
    elif len(got_en) < len(exp_en):
      sig = "entry-missing"
    elif got_en != exp_en:
      sig = "entry-sequence"
    else:
      sig = "action-order"
    return FAIL(sig, "chart parent=%s S=%d T=%d init=%s cur=%d: log=%s expected=%s" % (parent, S, T, init, cur, ch.log, exp))
  if c.state.fun is not ch.hs[rest]:
    return FAIL("resting-state", "rests in %s expected s%d" % (getattr(c.state.fun, "__name__", c.state.fun), rest))
  if c.temp.fun is not c.state.fun:
    return FAIL("temp-not-state", "temp.fun differs from state.fun after the step")
  return PASS(nontrivial=nontrivial)


def h_step(b: int, k: int, tsel: int, j1: int, j2: int, j3: int) -> bool:
  """
  pre: pre_step(b, k, tsel, j1, j2, j3)
  post: _
  """
  c = CUR
  l, a, pm, hx = PART["l"], PART["a"], PART["pm"], PART["hx"]
  b = ladder(b, 0, c["b"])
  j1 = ladder(j1, 0, c["j"])
  j2 = ladder(j2, 0, c["j"])
  j3 = ladder(j3, 0, c["j"])
  k = ladder(k, 0, l + a - 1)
  tsel = ladder(tsel, 0, l + a + b - 1)
  return verdict((l, a, b, k, tsel, j1, j2, j3, pm, hx), concrete(case_step, l, a, b, k, tsel, j1, j2, j3, pm, hx))


CASES = {"h_step": case_step}


def count(part):
  """number of parameter tuples of a partition, computed independently of CrossHair"""
  global PART
  saved, PART = PART, part
  c = CUR
  l, a = part["l"], part["a"]
  n = 0
  try:
    for b in range(c["b"] + 1):
      for j1 in range(c["j"] + 1):
        for j2 in range(c["j"] + 1):
          for j3 in range(c["j"] + 1):
            if l + a + b + j1 + j2 + j3 > c["N"]:
              continue
            for k in range(l + a):
              for t in range(l + a + b):
                if pre_step(b, k, t, j1, j2, j3):
                  n += 1
  finally:
    PART = saved
  return n


def set_tier(tier):
  CUR.clear()
  CUR.update(LIM[tier])


def jobs(tier):
  set_tier(tier)
  out = []
  for hx in LIM[tier]["hx"]:
    for pm in (0, 1):
      for l in range(CUR["l"] + 1):
        for a in range(1, CUR["a"] + 1):
          part = {"l": l, "a": a, "pm": pm, "hx": hx, "tier": tier}
          n = count(part)
          if n:
            out.append({"harness": "h_step", "part": part, "expected": n,
                        "timeout": 300 if tier == "quick" else 1800})
  return out
