"""C01 Transitions run exits, entries and initial transitions in UML order (DESIGN 6/C01)."""
from vf.core import PASS, FAIL
from vf.family import Family, set_tier_all, jobs_all
from vf import charts

PROP = "C01"
PART = {}
FUNCTIONS = ["miros.hsm.HsmEventProcessor.dispatch", "miros.hsm.HsmEventProcessor.trans_",
             "miros.hsm.HsmEventProcessor.trans", "miros.hsm.HsmEventProcessor.top"]
ASSUMPTIONS = [
  "pre-state installed directly (state.fun = temp.fun = handler of the current state): the only state a step inherits",
  "handlers follow the documented shape: log their action, return HANDLED/TRAN/UNHANDLED or name their parent with SUPER",
  "CrossHair/z3 decide which parameter tuples satisfy the precondition; each tuple is then executed concretely on the real code",
]
OUTSIDE = ["active chains longer than N states", "more than three consecutive initial transitions",
           "handlers that write temp.fun outside the trans/SUPER protocol"]
EXPLANATION = ("Bounded symbolic execution (CrossHair/z3) of the real dispatch/trans_ on the Y-with-tail chart family: "
               "trunk l, source branch a, target branch b, answering state k, target tsel, init hops j1..j3, pass mode, "
               "which of entry/exit/init are explicit. Every path over the stated ranges is CONFIRMED; the action log must equal "
               "the UML oracle exactly and the chart must rest in the last init target with state.fun is temp.fun.")
RULE = ("one case per parameter tuple satisfying the precondition (enumerated by the solver, count cross-checked); "
        "non-trivial = the oracle expects at least one exit or entry besides the offers")

LIM = {"quick": dict(N=8, hops=2, hxs=(0, 7)),
       "thorough": dict(N=10, hops=3, hxs=(0, 1, 2, 3, 4, 5, 6, 7))}


def bounds(tier):
  d = dict(LIM[tier])
  d["meaning"] = ("N = max states l+a+b+j1+j2+j3 (l<=3 trunk, a<=4 source branch, b<=5 target branch, each init hop <=5 levels), "
                  "hops = consecutive initial transitions, hxs = bitmasks of entry/exit/init left implicit; both pass modes; "
                  "deep narrow charts (h_deep): target chain of up to B states, two chained initial transitions of up to J levels each, N states in all")
  d["deep"] = dict(DEEP[tier])
  return d


def pre_step(v, lim):
  if lim["hops"] < 3 and v["j3"] != 0:
    return False
  if (v["j2"] > 0 and v["j1"] == 0) or (v["j3"] > 0 and v["j2"] == 0):
    return False
  if v["l"] + v["a"] + v["b"] + v["j1"] + v["j2"] + v["j3"] > lim["N"]:
    return False
  if not (v["k"] < v["l"] + v["a"] and v["tsel"] < v["l"] + v["a"] + v["b"]):
    return False
  if v["hx"] not in lim["hxs"]:
    return False
  return True


def case_step(l, a, b, k, tsel, j1, j2, j3, pm, hx):
  from miros.hsm import HsmEventProcessor
  parent, react, init, cur, S, T = charts.y_family(l, a, b, k, tsel, j1, j2, j3, pm)
  ch = charts.Chart(parent, react, init, hx=hx)
  c = HsmEventProcessor()
  c.state.fun = ch.hs[cur]
  c.temp.fun = ch.hs[cur]
  exp, rest, kind = ch.oracle_dispatch(cur)
  try:
    c.dispatch(ch.Event(signal=ch.SIG))
  except Exception as ex:
    return FAIL("dispatch-raised:" + type(ex).__name__, "%r; log=%s expected=%s" % (ex, ch.log, exp))
  nontrivial = any(x[0] in ("ex", "en") for x in exp)
  if ch.log != exp:
    got_en = [x for x in ch.log if x[0] == "en"]
    exp_en = [x for x in exp if x[0] == "en"]
    got_ex = [x for x in ch.log if x[0] == "ex"]
    exp_ex = [x for x in exp if x[0] == "ex"]
    if got_ex != exp_ex:
      sig = "exit-sequence"
    elif len(got_en) < len(exp_en):
      sig = "entry-missing"
    elif got_en != exp_en:
      sig = "entry-sequence"
    else:
      sig = "action-order"
    return FAIL(sig, "chart parent=%s S=%d T=%d init=%s cur=%d: log=%s expected=%s" % (parent, S, T, init, cur, ch.log, exp))
  if c.state.fun is not ch.hs[rest]:
    return FAIL("resting-state", "rests in %s expected s%d" % (getattr(c.state.fun, "__name__", c.state.fun), rest))
  if c.temp.fun is not c.state.fun:
    return FAIL("temp-not-state", "temp.fun differs from state.fun after the step")
  return PASS(nontrivial=nontrivial)



Family(globals(), "h_step",
       params=[("l", 0, 3), ("a", 1, 4), ("b", 0, 5), ("k", 0, 6), ("tsel", 0, 11),
               ("j1", 0, 5), ("j2", 0, 5), ("j3", 0, 5), ("pm", 0, 1), ("hx", 0, 7)],
       pre=pre_step, case=case_step, split=["l", "a", "pm", "hx"], tiers=LIM)


# ---- deep, narrow charts: the processor's path buffers start with three slots and grow; nesting far beyond that, one chain per branch --------
DEEP = {"quick": dict(B=10, J=5, N=16), "thorough": dict(B=13, J=7, N=22)}


def pre_deep(v, lim):
  if v["b"] > lim["B"] or v["j1"] > lim["J"] or v["j2"] > lim["J"]:
    return False
  if v["j2"] > 0 and v["j1"] == 0:
    return False
  if 2 + v["b"] + v["j1"] + v["j2"] > lim["N"]:
    return False
  if v["up"] > v["b"]:
    return False
  return True


def case_deep(b, up, j1, j2, pm):
  """trunk s0, source s1 (child of s0), target branch: a chain of b states below s0; the source transitions to the state `up` levels above the
  end of that chain (b == 0: to the trunk itself); the target's initial transition goes j1 levels down a further chain, the state reached
  there j2 levels further"""
  tsel = (2 + b - 1 - up) if b > 0 else 0
  return case_step(1, 1, b, 0, tsel, j1, j2, 0, pm, 0)


Family(globals(), "h_deep", params=[("b", 0, 13), ("up", 0, 2), ("j1", 0, 7), ("j2", 0, 7), ("pm", 0, 1)],
       pre=pre_deep, case=case_deep, split=["pm", "up"], tiers=DEEP)


def set_tier(tier):
  set_tier_all(globals(), tier)


def jobs(tier):
  return jobs_all(globals(), tier)
