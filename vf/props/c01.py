"""C01 Transitions run exits, entries and initial transitions in UML order (DESIGN 6/C01)."""
from vf.core import PASS, FAIL
from vf.family import Family, set_tier_all, jobs_all
from vf import charts

PROP = "C01"
PART = {}
FUNCTIONS = ["miros.hsm.HsmEventProcessor.dispatch", "miros.hsm.HsmEventProcessor.trans_",
             "miros.hsm.HsmEventProcessor.trans", "miros.hsm.HsmEventProcessor.top"]
ASSUMPTIONS = [
  "pre-state installed directly (state.fun = temp.fun = handler of the current state): the only state a step inherits",
  "handlers follow the documented shape: log their action, return HANDLED/TRAN/UNHANDLED or name their parent with SUPER",
  "CrossHair/z3 decide which parameter tuples satisfy the precondition; each tuple is then executed concretely on the real code",
]
OUTSIDE = ["active chains longer than N states", "more than three consecutive initial transitions",
           "handlers that write temp.fun outside the trans/SUPER protocol"]
EXPLANATION = ("Bounded symbolic execution (CrossHair/z3) of the real dispatch/trans_ on the Y-with-tail chart family: "
               "trunk l, source branch a, target branch b, answering state k, target tsel, init hops j1..j3, pass mode, "
               "which of entry/exit/init are explicit. Every path over the stated ranges is CONFIRMED; the action log must equal "
               "the UML oracle exactly and the chart must rest in the last init target with state.fun is temp.fun.")
RULE = ("one case per parameter tuple satisfying the precondition (enumerated by the solver, count cross-checked); "
        "non-trivial = the oracle expects at least one exit or entry besides the offers")

LIM = {"quick": dict(N=8, hops=2, hxs=(0, 7)),
       "thorough": dict(N=10, hops=3, hxs=(0, 1, 2, 3, 4, 5, 6, 7))}


def bounds(tier):
  d = dict(LIM[tier])
  d["meaning"] = ("N = max states l+a+b+j1+j2+j3 (l<=3 trunk, a<=4 source branch, b<=5 target branch, each init hop <=5 levels), "
                  "hops = consecutive initial transitions, hxs = bitmasks of entry/exit/init left implicit; both pass modes")
  return d


def pre_step(v, lim):
  if lim["hops"] < 3 and v["j3"] != 0:
    return False
  if (v["j2"] > 0 and v["j1"] == 0) or (v["j3"] > 0 and v["j2"] == 0):
    return False
  if v["l"] + v["a"] + v["b"] + v["j1"] + v["j2"] + v["j3"] > lim["N"]:
    return False
  if not (v["k"] < v["l"] + v["a"] and v["tsel"] < v["l"] + v["a"] + v["b"]):
    return False
  if v["hx"] not in lim["hxs"]:
    return False
  return True


def case_step(l, a, b, k, tsel, j1, j2, j3, pm, hx):
  from miros.hsm import HsmEventProcessor
  parent, react, init, cur, S, T = charts.y_family(l, a, b, k, tsel, j1, j2, j3, pm)
  ch = charts.Chart(parent, react, init, hx=hx)
  c = HsmEventProcessor()
  c.state.fun = ch.hs[cur]
  c.temp.fun = ch.hs[cur]
  exp, rest, kind = ch.oracle_dispatch(cur)
  try:
    c.dispatch(ch.Event(signal=ch.SIG))
  except Exception as ex:
    return FAIL("dispatch-raised:" + type(ex).__name__, "%r; log=%s expected=%s" % (ex, ch.log, exp))
  nontrivial = any(x[0] in ("ex", "en") for x in exp)
  if ch.log != exp:
    got_en = [x for x in ch.log if x[0] == "en"]
    exp_en = [x for x in exp if x[0] == "en"]
    got_ex = [x for x in ch.log if x[0] == "ex"]
    exp_ex = [x for x in exp if x[0] == "ex"]
    if got_ex != exp_ex:
      sig = "exit-sequence"
    elif len(got_en) < len(exp_en):
      sig = "entry-missing"
    elif got_en != exp_en:
      sig = "entry-sequence"
    else:
      sig = "action-order"
    return FAIL(sig, "chart parent=%s S=%d T=%d init=%s cur=%d: log=%s expected=%s" % (parent, S, T, init, cur, ch.log, exp))
  if c.state.fun is not ch.hs[rest]:
    return FAIL("resting-state", "rests in %s expected s%d" % (getattr(c.state.fun, "__name__", c.state.fun), rest))
  if c.temp.fun is not c.state.fun:
    return FAIL("temp-not-state", "temp.fun differs from state.fun after the step")
  return PASS(nontrivial=nontrivial)



Family(globals(), "h_step",
       params=[("l", 0, 3), ("a", 1, 4), ("b", 0, 5), ("k", 0, 6), ("tsel", 0, 11),
               ("j1", 0, 5), ("j2", 0, 5), ("j3", 0, 5), ("pm", 0, 1), ("hx", 0, 7)],
       pre=pre_step, case=case_step, split=["l", "a", "pm", "hx"], tiers=LIM)


def set_tier(tier):
  set_tier_all(globals(), tier)


def jobs(tier):
  return jobs_all(globals(), tier)
