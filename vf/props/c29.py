"""C29 Thread-safe attribute values belong to their instance (DESIGN 6/C29)."""
from vf.core import PASS, FAIL
from vf.family import Family, set_tier_all, jobs_all

PROP = "C29"
PART = {}
FUNCTIONS = ["miros.thread_safe_attributes.MetaThreadSafeAttributes.__init__", "miros.thread_safe_attributes.ThreadSafeAttribute.__get__",
             "miros.thread_safe_attributes.ThreadSafeAttribute.__set__", "is_not_atomic / request_for_lock (real inspect on real source lines of this file)"]
ASSUMPTIONS = ["single thread (concurrency is C27)", "a fresh class per case (the descriptors live on the class); the statements are real source lines of vf/props/c29.py, "
               "so the real frame inspection runs", "values are small distinct ints"]
OUTSIDE = ["more than 3 instances / 2 attributes / 2 classes"]
EXPLANATION = ("Bounded symbolic execution (CrossHair/z3), inductive step: a class with 1-2 thread-safe attributes (optionally a second class declaring the "
               "same names), 2-3 instances, a symbolic pre-state (which (instance, attribute) pairs were assigned, with distinct values), then one "
               "operation (create another instance, assign, augmented assign, read). Oracle: a dict keyed by (instance, attribute) with default 0: "
               "after the operation every instance reads exactly its own values.")
RULE = "one case per (instances, attributes, assigned-mask, operation, target); non-trivial = at least one pair assigned before the operation"
LIM = {"quick": dict(NI=2), "thorough": dict(NI=3)}
OPS = ["create-instance", "assign", "augmented-assign", "read", "discard-an-instance-then-create-one"]


def bounds(tier):
  d = dict(LIM[tier]); d["meaning"] = "NI = instances (of the first class); na attributes; mask over (instance, attribute); ops=%s; two = a second class with the same attribute names has an instance too" % OPS
  return d


def pre(v, lim):
  ni, na = v["ni"], v["na"]
  if ni > lim["NI"]:
    return False
  cells = ni * na
  top = 2 if cells == 1 else (4 if cells == 2 else (8 if cells == 3 else (16 if cells == 4 else 64)))
  if v["mask"] >= top:
    return False
  if v["ti"] >= ni or v["ta"] >= na:
    return False
  return True


def _assign(o, a, val):
  if a == 0:
    o.x = val
  else:
    o.y = val


def _aug(o, a, val):
  if a == 0:
    o.x += val
  else:
    o.y += val


def _read(o, a):
  if a == 0:
    v = o.x
  else:
    v = o.y
  return v


def case(ni, na, mask, op, ti, ta, two):
  from miros.thread_safe_attributes import MetaThreadSafeAttributes
  names = ["x", "y"][:na]

  class Thing(metaclass=MetaThreadSafeAttributes):
    _attributes = list(names)

  class Other(metaclass=MetaThreadSafeAttributes):
    _attributes = list(names)

  objs = [Thing() for _ in range(ni)]
  model = {}
  if two:
    objs.append(Other())
  val = 10
  for i in range(ni):
    for a in range(na):
      if (mask >> (i * na + a)) & 1:
        val += 1
        _assign(objs[i], a, val)
        model[(i, a)] = val
  what = "instances=%d attrs=%d assigned=%s op=%s on instance %d attr %s%s" % (ni, na, sorted(model), OPS[op], ti, names[ta], " (+ an instance of a second class)" if two else "")
  try:
    if op == 0:
      objs.insert(ni, Thing())          # a new instance reads 0 until assigned
      ni += 1
    elif op == 1:
      _assign(objs[ti], ta, 77)
      model[(ti, ta)] = 77
    elif op == 2:
      _aug(objs[ti], ta, 5)
      model[(ti, ta)] = model.get((ti, ta), 0) + 5
    elif op == 4:
      # short-lived objects: instance ti goes away (CPython hands its memory to the next object), a new one is created in its place
      import gc
      for a in range(na):
        model.pop((ti, a), None)
      for rnd in range(12):
        objs[ti] = None
        gc.collect()
        objs[ti] = Thing()
        for a in range(na):
          got = _read(objs[ti], a)
          if got != 0:
            return FAIL("new-instance-not-0", "%s: round %d: the new instance reads %s == %r before it was ever assigned" % (what, rnd, names[a], got))
        if rnd < 11:
          for a in range(na):
            _assign(objs[ti], a, 90 + rnd)          # the next round discards an assigned instance
    else:
      got = _read(objs[ti], ta)
      if got != model.get((ti, ta), 0):
        return FAIL("read-sees-other-instance", "%s: read %r expected %r" % (what, got, model.get((ti, ta), 0)))
    for i in range(len(objs)):
      for a in range(na):
        want = model.get((i, a), 0) if i < ni else 0
        got = _read(objs[i], a)
        if got != want:
          kind = "new-instance-not-0" if ((op == 0 and i == ni - 1) or (op == 4 and i == ti)) else ("second-class-shares-value" if i >= ni else "value-shared-between-instances")
          return FAIL(kind, "%s: instance %d.%s reads %r expected %r" % (what, i, names[a], got, want))
  except Exception as ex:
    return FAIL("raised:" + type(ex).__name__, "%s: %r" % (what, ex))
  return PASS(nontrivial=bool(mask))


Family(globals(), "h_instances", params=[("ni", 1, 3), ("na", 1, 2), ("mask", 0, 63), ("op", 0, 4), ("ti", 0, 2), ("ta", 0, 1), ("two", 0, 1)],
       pre=pre, case=case, split=["ni", "na"], tiers=LIM)


def set_tier(tier):
  set_tier_all(globals(), tier)


def jobs(tier):
  return jobs_all(globals(), tier)
