"""C16 Pending-event queues stay bounded, never block, and keep lifo posts (DESIGN 6/C16)."""
from vf.core import PASS, FAIL
from vf.family import Family, set_tier_all, jobs_all
from vf import queued

PROP = "C16"
PART = {}
FUNCTIONS = ["miros.activeobject.LockingDeque.append", "miros.activeobject.LockingDeque.appendleft", "miros.activeobject.LockingDeque.pop",
             "miros.activeobject.LockingDeque.popleft", "miros.activeobject.LockingDeque.clear", "miros.activeobject.LockingDeque.__len__",
             "miros.activeobject.LockingDeque.qsize", "miros.hsm.HsmWithQueues.post_fifo", "miros.hsm.HsmWithQueues.post_lifo",
             "miros.activeobject.ActiveObject.post_fifo", "miros.activeobject.ActiveObject.post_lifo"]
ASSUMPTIONS = [
  "inductive step from an arbitrary pre-state: capacity C, n events, token balance tokens-n in -2..1 (0 = idle representation invariant; "
  "+1 = spurious token left when the consumer handled an event announced by a repair token; negative = transient states the repair loop exists for), "
  "consumer regime (never took a token / took one and finished / took one and is mid-step)",
  "queue.Queue replaced by a subclass that raises where the real one would block (a would-be block is the violation 'posting blocks')",
  "capacity (HsmWithQueues.QUEUE_SIZE, 500 in production) set to 1..3: the code reads it as a parameter",
  "which old event a full queue displaces is not asserted (the statement leaves it open); the survivors must keep their order",
]
OUTSIDE = ["capacities above the bound", "interleavings inside one operation (C04/C05)"]
EXPLANATION = ("Bounded symbolic execution (CrossHair/z3) of one queue operation from a symbolic pre-state on LockingDeque, on a queued chart's "
               "deque and on an un-started ActiveObject. Oracle: bounded deque; a fifo post leaves the new event at the back, a lifo post at the "
               "front, length <= capacity, surviving old events keep their order (all of them when not full); pop/popleft/len agree with "
               "the model; after clear both deque and token queue are empty and nothing was raised; after a post tokens >= length and tokens == "
               "length whenever the balance before was <= 0; nothing would block.")
RULE = "one case per (target, capacity, length, token balance, consumer regime, operation); non-trivial = pre-state non-empty"
LIM = {"quick": dict(C=3), "thorough": dict(C=5)}
OPS = ["append", "appendleft", "pop", "popleft", "clear", "len"]
TARGETS = ["LockingDeque", "HsmWithQueues.post_*", "ActiveObject.post_*"]


def bounds(tier):
  d = dict(LIM[tier]); d["meaning"] = "C = max capacity; n 0..C; balance -2..1; regimes 3; ops %s; targets %s" % (OPS, TARGETS)
  return d


def pre(v, lim):
  C, n, bal = v["C"], v["n"], v["bal"] - 2
  if C > lim["C"] or n > C:
    return False
  t = n + bal
  if t < 0 or t > C:
    return False
  if v["target"] != 0 and v["op"] > 1:
    return False
  if v["target"] == 1 and (v["bal"] != 2 or v["regime"] != 0):
    return False       # a plain queued chart has no tokens
  return True


def case(target, C, n, bal, regime, op):
  bal = bal - 2
  tokens = n + bal
  chart = queued.make_host(0 if target == 1 else 1, 1, C)   # sets QUEUE_SIZE, NBQueue, fresh singletons
  import miros.activeobject as ao
  from miros.event import Event
  old = [Event(signal="T_%d" % i) for i in range(n)]
  new = Event(signal="T_new")
  what = "%s C=%d n=%d tokens=%d regime=%d op=%s" % (TARGETS[target], C, n, tokens, regime, OPS[op])
  if target == 1:
    for e in old:
      chart.queue.append(e)
    ld = None
    dq = chart.queue
  else:
    ld = ao.LockingDeque() if target == 0 else chart.queue
    for e in old:
      ld.deque.append(e)
    q = ld.locking_queue
    if regime >= 1:
      q.put("ready"); q.get()
      if regime == 1:
        q.task_done()
    for _ in range(tokens):
      q.put("ready")
    dq = ld.deque
  res = None
  try:
    if target == 0:
      if op == 0: ld.append(new)
      elif op == 1: ld.appendleft(new)
      elif op == 2: res = ld.pop()
      elif op == 3: res = ld.popleft()
      elif op == 4: ld.clear()
      else: res = len(ld)
    else:
      if op == 0: chart.post_fifo(new)
      else: chart.post_lifo(new)
  except queued.WouldBlock as ex:
    return FAIL("blocks:" + OPS[op], "%s: %s" % (what, ex))
  except Exception as ex:
    if op in (2, 3) and n == 0 and isinstance(ex, IndexError):
      return PASS(nontrivial=False)      # popping an empty deque raises, as collections.deque does
    return FAIL("raised:%s:%s" % (OPS[op], type(ex).__name__), "%s: %r" % (what, ex))
  if queued.NBQueue.blocked:
    return FAIL("blocks:" + OPS[op], what + " (blocking call swallowed)")
  now = list(dq)
  names = [e.signal_name for e in now]
  if len(now) > C:
    return FAIL("over-capacity", "%s: %d events" % (what, len(now)))

  def subseq_minus_at_most_one(rest):
    # rest must be `old` in order with (len(old) - len(rest)) elements removed
    it = iter(old)
    return all(any(x is y for y in it) for x in rest)

  if op in (0, 1):
    if not now or (now[-1] if op == 0 else now[0]) is not new:
      side = "back" if op == 0 else "front"
      full = "on-full" if n == C else "not-full"
      return FAIL("%s-%s-new-event-not-at-%s" % (OPS[op], full, side), "%s: queue now %s" % (what, names))
    rest = now[:-1] if op == 0 else now[1:]
    want = n if n < C else C - 1
    if len(rest) != want or not subseq_minus_at_most_one(rest):
      return FAIL("%s-disturbs-old-events" % OPS[op], "%s: queue now %s" % (what, names))
    if ld is not None:
      t2 = ld.locking_queue.qsize()
      if t2 < len(now):
        return FAIL("pending-event-without-token", "%s: tokens %d length %d" % (what, t2, len(now)))
      if bal <= 0 and t2 != len(now):
        return FAIL("token-surplus-after-post", "%s: tokens %d length %d" % (what, t2, len(now)))
  elif op == 2:
    if res is not old[-1] or now != old[:-1]:
      return FAIL("pop-result", what)
  elif op == 3:
    if res is not old[0] or now != old[1:]:
      return FAIL("popleft-result", what)
  elif op == 4:
    if now or ld.locking_queue.qsize() != 0:
      return FAIL("clear-leaves-content", "%s: %d events %d tokens" % (what, len(now), ld.locking_queue.qsize()))
  else:
    if res != n or now != old:
      return FAIL("len-result", what)
  return PASS(nontrivial=n > 0)


Family(globals(), "h_qop", params=[("target", 0, 2), ("C", 1, 5), ("n", 0, 5), ("bal", 0, 3), ("regime", 0, 2), ("op", 0, 5)],
       pre=pre, case=case, split=["target"], tiers=LIM)


def set_tier(tier):
  set_tier_all(globals(), tier)


def jobs(tier):
  return jobs_all(globals(), tier)
