"""C17 Factory/template charts and their to_code text behave like hand-written charts (DESIGN 6/C17)."""
from vf.core import PASS, FAIL
from vf.family import Family, set_tier_all, jobs_all

PROP = "C17"
PART = {}
FUNCTIONS = ["miros.hsm.state_method_template", "miros.hsm.HsmWithQueues.register_signal_callback", "miros.hsm.HsmWithQueues.register_parent",
             "miros.hsm.HsmWithQueues.signal_callback", "miros.hsm.HsmWithQueues.parent_callback", "miros.hsm.HsmWithQueues.to_code",
             "miros.activeobject.Factory.create/catch/to_method/nest/start_at", "miros.hsm.HsmWithQueues.start_at/post_fifo/next_rtc/dispatch"]
ASSUMPTIONS = [
  "four builds of the same chart table, each from the real code: (1) state_method_template + register_signal_callback + register_parent on HsmWithQueues; "
  "(2) Factory.create().catch()...to_method(), nest(method, parent=method|None) (threads replaced by recording stand-ins, steps taken with next_rtc); "
  "(3) the text to_code returns for every state of build 1, exec-ed in one namespace holding spy_on, signals, return_status and the callbacks by name, "
  "used in place of the generated states; (4) the hand-written reference: one plain state function per state that looks the signal up in the table, "
  "calls the callback, otherwise names its parent (the documented handler shape) - the processor's behaviour on such charts is C01-C03's subject",
  "callbacks are functions - or callable objects that keep a __name__ (cobj) - with distinct identifier names other than 'handled'; signal names are identifiers; a declining callback may have called trans() before it declines (dtrans)",
  "fresh signal registry and fabric per case",
]
OUTSIDE = ["state names outside the three pools (plain, containing 'top', contained in one another)", "lambdas / bound methods / callbacks named 'handled' as callbacks, signal names that are not identifiers (to_code cannot render them)",
           "Factory.nest given state names as strings (every documented use passes state methods)",
           "more than 3 generated states, more than one initial transition per state"]
EXPLANATION = ("Bounded symbolic execution (CrossHair/z3) over chart tables of 3 generated states: shape, start state, initial transitions, which state on "
               "the active path answers the event and how (handled / transition to any state), how the states below it pass (nothing registered / a "
               "declining callback), callbacks on off-path states, a second signal, entry/exit callbacks, registration order. For each table the four "
               "builds run start_at and one step; their callback logs (state, signal, in order) and resting states must be identical.")
RULE = "one case per table tuple; non-trivial = the event is answered by a state or an initial transition exists"
LIM = {"quick": dict(SH=2, EE=1, ORD=1), "thorough": dict(SH=3, EE=2, ORD=2)}
SHAPES = [[-1, 0, 1], [-1, 0, 0], [-1, -1, 1], [-1, -1, -1]]


def bounds(tier):
  d = dict(LIM[tier])
  d["meaning"] = ("SH = shapes 0..SH of %r (parent tables); EE = entry/exit callback patterns 0..EE (none, entry+exit on all, entry only on all); "
                  "ORD = which state is registered first 0..ORD; depth 0..3 answering state along the active path (path length = nobody), kind = handled / "
                  "transition to state 0..2, pmask = per passing state nothing-registered vs declining callback, noise = handled-callbacks on off-path states, "
                  "bsel = state holding a callback for the second signal, evt = which signal is dispatched" % (SHAPES,))
  return d


def first_child(parent, i):
  for j in range(len(parent)):
    if parent[j] == i:
      return j
  return -1


def rest_of(shape, initm, cur):
  parent = SHAPES[shape]
  while initm:
    c = first_child(parent, cur)
    if c < 0:
      break
    cur = c
  return cur


def path_of(shape, s):
  parent = SHAPES[shape]
  out = []
  while s >= 0:
    out.append(s)
    s = parent[s]
  return out


PLEN = [[[len(path_of(sh, rest_of(sh, im, c))) for c in range(3)] for im in range(2)] for sh in range(4)]


def pre(v, lim):
  if v["shape"] > lim["SH"] or v["ee"] > lim["EE"] or v["order"] > lim["ORD"]:
    return False
  if (v["nms"] or v["reuse"]) and (v["noise"] or v["bsel"] or v["ee"] or v["dtrans"] or v["cobj"] or v["order"] or (v["nms"] and v["reuse"])):
    return False          # other state names / re-used template functions: on the plain tables only (one variation at a time)
  plen = 1
  # table lookup written as comparisons so that the solver decides it
  for sh in range(4):
    for im in range(2):
      for c in range(3):
        if v["shape"] == sh and v["initm"] == im and v["cur"] == c:
          plen = PLEN[sh][im][c]
  d = v["depth"]
  if d > plen:
    return False
  if d == plen and v["kind"] != 0:
    return False
  top = 1 if d == 0 else (2 if d == 1 else (4 if d == 2 else 8))
  if v["pmask"] >= top:
    return False
  if v["dtrans"] == 1 and v["pmask"] == 0:
    return False
  if v["evt"] == 1:
    if d != 0 or v["kind"] != 0 or v["pmask"] != 0:
      return False
  else:
    if v["bsel"] > 1:
      return False
  return True


class Build:
  """one build: its own log, its own state functions; callbacks are created per build so that transitions target this build's states"""

  def __init__(self, table, parent):
    self.log = []
    self.states = [None, None, None]
    self.table = table          # state -> {signal name: (kind, arg)}
    self.parent = parent
    self.cbs = {}
    self.callable_objects = False

  def callback(self, i, signame):
    kind, arg = self.table[i][signame]
    b = self
    from miros.event import return_status

    def cb(chart, e):
      b.log.append((i, signame))
      if kind == "handled":
        return return_status.HANDLED
      if kind == "decline":
        if arg is not None:
          chart.trans(b.states[arg])       # a guard that fails after the transition was prepared: the callback still declines
        return return_status.UNHANDLED
      return chart.trans(b.states[arg])
    name = "cb_s%d_%s_%s%s" % (i, signame, kind, "" if arg is None else arg)
    if self.callable_objects:
      # a callback that is a callable object keeping its name (a class-based decorator, functools.partial, an instance with __call__)
      class Counted:
        def __init__(self, fn):
          self.fn = fn
          self.__name__ = name
          self.calls = 0

        def __call__(self, chart, e):
          self.calls += 1
          return self.fn(chart, e)
      cb = Counted(cb)
    else:
      cb.__name__ = name
      cb.__qualname__ = name
    self.cbs[name] = cb
    return cb


def make_table(shape, cur, initm, depth, kind, pmask, noise, bsel, ee, dtrans=0):
  parent = SHAPES[shape]
  rest = rest_of(shape, initm, cur)
  path = path_of(shape, rest)
  table = [dict() for _ in range(3)]
  for pos, s in enumerate(path):
    if pos < depth:
      if (pmask >> pos) & 1:
        table[s]["A"] = ("decline", (s + 1) % 3 if dtrans else None)
    elif pos == depth:
      table[s]["A"] = ("handled", None) if kind == 0 else ("trans", kind - 1)
  if noise:
    for s in range(3):
      if s not in path:
        table[s]["A"] = ("handled", None)
  if bsel:
    table[bsel - 1]["B"] = ("handled", None)
  for s in range(3):
    if ee >= 1:
      table[s]["ENTRY_SIGNAL"] = ("handled", None)
    if ee == 1:
      table[s]["EXIT_SIGNAL"] = ("handled", None)
    if initm and first_child(parent, s) >= 0:
      table[s]["INIT_SIGNAL"] = ("trans", first_child(parent, s))
  return parent, table


def sig_of(signals, name):
  return getattr(signals, name)


def register_all(chart, b, order, via_factory=None):
  import miros.event as ev
  idx = [(order + k) % 3 for k in range(3)]
  for i in idx:
    for signame in sorted(b.table[i]):
      cb = b.callback(i, signame)
      if via_factory is not None:
        via_factory[i].catch(signal=sig_of(ev.signals, signame), handler=cb)
      else:
        chart.register_signal_callback(b.states[i], sig_of(ev.signals, signame), cb)
  for i in idx:
    p = b.parent[i]
    if via_factory is not None:
      chart.nest(b.states[i], parent=None if p < 0 else b.states[p])
    else:
      chart.register_parent(b.states[i], chart.top if p < 0 else b.states[p])


SNAMES = [["s0", "s1", "s2"], ["stopped", "top_level", "desktop"], ["s", "s_s", "ss"]]      # plain; names containing 'top'; names contained in one another


def run_build(which, shape, cur, initm, depth, kind, pmask, noise, bsel, ee, order, evt, dtrans=0, cobj=0, texts=None, nms=0, reuse=0):
  """returns (start log, step log, resting state name, texts of to_code when which == 1)"""
  from vf import hosts
  hsm, ao = hosts.install_stubs()
  import miros.event as ev
  parent, table = make_table(shape, cur, initm, depth, kind, pmask, noise, bsel, ee, dtrans)
  b = Build(table, parent)
  b.callable_objects = bool(cobj)
  SN = SNAMES[nms]
  out_texts = None
  if which == 1:
    chart = hsm.HsmWithQueues()
    b.states = [hsm.state_method_template(SN[i]) for i in range(3)]
    if reuse:
      # the same template functions were used by another chart before (templates find callbacks and parents through the chart they are called with)
      earlier = hsm.HsmWithQueues()
      register_all(earlier, b, order)
      earlier.start_at(b.states[cur])
      earlier.post_fifo(ev.Event(signal="B" if evt else "A"))
      earlier.next_rtc()
      earlier.post_fifo(ev.Event(signal="UNKNOWN_TO_EVERY_STATE"))
      earlier.next_rtc()
      del b.log[:]
    register_all(chart, b, order)
    out_texts = []
    for i in range(3):
      try:
        out_texts.append(chart.to_code(b.states[i]))
      except Exception as ex:
        out_texts.append(ex)
  elif which == 2:
    chart = ao.Factory("f")
    blue = [chart.create(state=SN[i]) for i in range(3)]
    b.states = [x.to_method() for x in blue]
    register_all(chart, b, order, via_factory=blue)
  elif which == 3:
    chart = hsm.HsmWithQueues()
    ns = {"spy_on": hsm.spy_on, "signals": ev.signals, "return_status": ev.return_status}
    b.states = [None, None, None]
    for i in range(3):
      for signame in sorted(table[i]):
        b.callback(i, signame)
    ns.update(b.cbs)
    for i in range(3):
      exec(texts[i], ns)
    b.states = [ns[SN[i]] for i in range(3)]
  else:
    chart = hsm.HsmWithQueues()
    rs = ev.return_status

    def mk(i):
      cbs = {sig_of(ev.signals, n): b.callback(i, n) for n in sorted(table[i])}

      def state(c, e):
        if e.signal in cbs:
          return cbs[e.signal](c, e)
        c.temp.fun = c.top if parent[i] < 0 else b.states[parent[i]]
        return rs.SUPER
      state.__name__ = SN[i]
      return hsm.spy_on(state)
    b.states = [mk(i) for i in range(3)]
  chart.start_at(b.states[cur])
  start_log = list(b.log)
  del b.log[:]
  chart.post_fifo(ev.Event(signal="B" if evt else "A"))
  chart.next_rtc()
  return start_log, list(b.log), chart.state_name, out_texts


BUILDS = {1: "template+register", 2: "Factory", 3: "to_code text", 4: "hand-written reference"}


def case(shape, cur, initm, depth, kind, pmask, noise, bsel, ee, order, evt, dtrans=0, cobj=0, nms=0, reuse=0):
  args = (shape, cur, initm, depth, kind, pmask, noise, bsel, ee, order, evt, dtrans, cobj)
  parent, table = make_table(shape, cur, initm, depth, kind, pmask, noise, bsel, ee, dtrans)
  what = "parent=%s table=%s start=s%d event=%s first-registered=s%d%s%s%s" % (parent, table, cur, "B" if evt else "A", order, ", callbacks are callable objects" if cobj else "",
                                                                           ", states named %s" % SNAMES[nms] if nms else "", ", the template functions served another chart before" if reuse else "")
  if not any(table):
    # no callback registered on any state: register_signal_callback was never called, the chart was not assembled with it
    return PASS(nontrivial=False, tags=["degenerate: no callback at all (outside the claim)"])
  res = {}
  texts = None
  for which in (4, 1, 2, 3):
    if which == 3:
      bad = [i for i, t in enumerate(texts) if isinstance(t, Exception)]
      if bad:
        i = bad[0]
        nothing = not table[i]
        return FAIL("to_code-raises:%s%s" % (type(texts[i]).__name__, ":state-without-callbacks" if nothing else ""),
                    "%s: to_code(s%d) raised %r" % (what, i, texts[i]))
    try:
      r = run_build(which, *args, texts=texts, nms=nms, reuse=reuse)
    except Exception as ex:
      return FAIL("raised:%s:%s" % (BUILDS[which].split()[0], type(ex).__name__), "%s: build '%s' raised %r" % (what, BUILDS[which], ex))
    if which == 1:
      texts = r[3]
    res[which] = r[:3]
  ref = res[4]
  for which in (1, 2, 3):
    if res[which] != ref:
      part = "start" if res[which][0] != ref[0] else ("step" if res[which][1] != ref[1] else "resting-state")
      return FAIL("differs:%s:%s" % (BUILDS[which].split()[0], part),
                  "%s: build '%s' gives start=%s step=%s rest=%s; hand-written reference gives start=%s step=%s rest=%s" % (
                    (what, BUILDS[which]) + tuple(res[which]) + tuple(ref)))
  return PASS(nontrivial=bool(ref[1]) or bool(initm))


Family(globals(), "h_builds", params=[("shape", 0, 3), ("cur", 0, 2), ("initm", 0, 1), ("depth", 0, 3), ("kind", 0, 3), ("pmask", 0, 7),
                                       ("noise", 0, 1), ("bsel", 0, 3), ("ee", 0, 2), ("order", 0, 2), ("evt", 0, 1), ("dtrans", 0, 1), ("cobj", 0, 1),
                                       ("nms", 0, 2), ("reuse", 0, 1)],
       pre=pre, case=case, split=["shape", "cur", "ee", "order"], tiers=LIM)


def set_tier(tier):
  set_tier_all(globals(), tier)


def jobs(tier):
  return jobs_all(globals(), tier)
