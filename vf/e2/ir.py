"""IR of pysched: expressions over small unsigned integers, evaluated by two interchangeable back ends
(python ints for the concrete interpreter / differential validation, z3 bit-vectors for BMC)."""
import z3

W = 5                      # bit width of every value
MASK = (1 << W) - 1
NONE = MASK                # python None; interned strings are numbered downwards from NONE - 1, integers upwards from 0


class ConcreteB:
  name = "concrete"

  @staticmethod
  def const(n):
    return n & MASK

  @staticmethod
  def true():
    return True

  @staticmethod
  def false():
    return False

  @staticmethod
  def ite(c, a, b):
    return a if c else b

  @staticmethod
  def and_(*xs):
    return all(xs)

  @staticmethod
  def or_(*xs):
    return any(xs)

  @staticmethod
  def not_(x):
    return not x

  @staticmethod
  def eq(a, b):
    return a == b

  @staticmethod
  def ult(a, b):
    return a < b

  @staticmethod
  def ule(a, b):
    return a <= b

  @staticmethod
  def add(a, b):
    return (a + b) & MASK

  @staticmethod
  def sub(a, b):
    return (a - b) & MASK

  @staticmethod
  def bite(c, a, b):
    return a if c else b


class Z3B:
  name = "z3"

  @staticmethod
  def const(n):
    return z3.BitVecVal(n & MASK, W)

  @staticmethod
  def true():
    return z3.BoolVal(True)

  @staticmethod
  def false():
    return z3.BoolVal(False)

  @staticmethod
  def ite(c, a, b):
    return z3.If(c, a, b)

  @staticmethod
  def bite(c, a, b):
    return z3.If(c, a, b)

  @staticmethod
  def and_(*xs):
    xs = [x for x in xs if not z3.is_true(x)]
    if not xs:
      return z3.BoolVal(True)
    if len(xs) == 1:
      return xs[0]
    return z3.And(*xs)

  @staticmethod
  def or_(*xs):
    xs = [x for x in xs if not z3.is_false(x)]
    if not xs:
      return z3.BoolVal(False)
    if len(xs) == 1:
      return xs[0]
    return z3.Or(*xs)

  @staticmethod
  def not_(x):
    return z3.Not(x)

  @staticmethod
  def eq(a, b):
    return a == b

  @staticmethod
  def ult(a, b):
    return z3.ULT(a, b)

  @staticmethod
  def ule(a, b):
    return z3.ULE(a, b)

  @staticmethod
  def add(a, b):
    return a + b

  @staticmethod
  def sub(a, b):
    return a - b


# ---- expressions ------------------------------------------------------------------------------
class X:
  isbool = False


class K(X):
  def __init__(self, n):
    self.n = n & MASK

  def __repr__(self):
    return "K(%d)" % self.n


class V(X):
  def __init__(self, name):
    self.name = name

  def __repr__(self):
    return "V(%s)" % self.name


class Bin(X):
  def __init__(self, op, a, b):
    self.op, self.a, self.b = op, a, b

  def __repr__(self):
    return "(%r %s %r)" % (self.a, self.op, self.b)


class Cmp(X):
  isbool = True

  def __init__(self, op, a, b):
    self.op, self.a, self.b = op, a, b

  def __repr__(self):
    return "(%r %s %r)" % (self.a, self.op, self.b)


class Not(X):
  isbool = True

  def __init__(self, a):
    self.a = a

  def __repr__(self):
    return "not(%r)" % (self.a,)


class BoolOp(X):
  isbool = True

  def __init__(self, op, xs):
    self.op, self.xs = op, list(xs)

  def __repr__(self):
    return "%s%r" % (self.op, self.xs)


class BK(X):
  isbool = True

  def __init__(self, v):
    self.v = bool(v)

  def __repr__(self):
    return "BK(%s)" % self.v


class Ite(X):
  def __init__(self, c, a, b):
    self.c, self.a, self.b = c, a, b

  def __repr__(self):
    return "ite(%r, %r, %r)" % (self.c, self.a, self.b)


def truth(e):
  """python truthiness of an int-valued expression (0 and None are falsy)"""
  if e.isbool:
    return e
  if isinstance(e, K):
    return BK(e.n != 0 and e.n != NONE)
  return BoolOp("and", [Cmp("ne", e, K(0)), Cmp("ne", e, K(NONE))])


def as_int(e):
  if not e.isbool:
    return e
  if isinstance(e, BK):
    return K(1 if e.v else 0)
  return Ite(e, K(1), K(0))


def ev(e, st, B):
  """evaluate expression e over state mapping st (name -> backend value)"""
  if isinstance(e, K):
    return B.const(e.n)
  if isinstance(e, V):
    return st[e.name]
  if isinstance(e, BK):
    return B.true() if e.v else B.false()
  if isinstance(e, Bin):
    a, b = ev(e.a, st, B), ev(e.b, st, B)
    if e.op == "add":
      return B.add(a, b)
    if e.op == "sub":
      return B.sub(a, b)
    raise ValueError(e.op)
  if isinstance(e, Cmp):
    a, b = ev(as_int(e.a), st, B), ev(as_int(e.b), st, B)
    if e.op == "eq":
      return B.eq(a, b)
    if e.op == "ne":
      return B.not_(B.eq(a, b))
    if e.op == "lt":
      return B.ult(a, b)
    if e.op == "le":
      return B.ule(a, b)
    if e.op == "gt":
      return B.ult(b, a)
    if e.op == "ge":
      return B.ule(b, a)
    raise ValueError(e.op)
  if isinstance(e, Not):
    return B.not_(ev(truth(e.a), st, B))
  if isinstance(e, BoolOp):
    xs = [ev(truth(x), st, B) for x in e.xs]
    return B.and_(*xs) if e.op == "and" else B.or_(*xs)
  if isinstance(e, Ite):
    c = ev(truth(e.c), st, B)
    if e.a.isbool or e.b.isbool:
      return B.bite(c, ev(truth(e.a), st, B), ev(truth(e.b), st, B))
    return B.ite(c, ev(e.a, st, B), ev(e.b, st, B))
  raise TypeError("cannot evaluate %r" % (e,))


def evint(e, st, B):
  return ev(as_int(e), st, B)


# ---- nodes of a thread program --------------------------------------------------------------------
class Node:
  shared = False

  def __init__(self, **kw):
    self.id = None
    self.next = None
    self.src = None          # (function qualname, line number) for reports
    self.__dict__.update(kw)


class Assign(Node):
  """dst (state variable name) := expr; local"""


class Branch(Node):
  """if cond: goto t else goto f; local"""


class Jump(Node):
  """goto next; local"""


class Op(Node):
  """one shared operation on a model object: obj (static model) or (cls list, index expr); result -> dst (optional list of dsts);
  exc: exception name -> target node id (or None = crash)"""
  shared = True


class End(Node):
  """thread finished (kind 'done') or crashed with an uncaught exception (kind 'crashed:<Exc>')"""
  shared = True


class Ghost(Node):
  """scenario ghost update: fn(B, st, tid) -> updates dict; executed as part of the local continuation;
  uses = expressions whose variables the update reads"""


def expr_vars(e, out=None):
  out = set() if out is None else out
  if isinstance(e, V):
    out.add(e.name)
  elif isinstance(e, (Bin, Cmp)):
    expr_vars(e.a, out); expr_vars(e.b, out)
  elif isinstance(e, Not):
    expr_vars(e.a, out)
  elif isinstance(e, BoolOp):
    for x in e.xs:
      expr_vars(x, out)
  elif isinstance(e, Ite):
    expr_vars(e.c, out); expr_vars(e.a, out); expr_vars(e.b, out)
  return out
