"""Step semantics of a system of thread programs over model objects, shared by the concrete interpreter (python ints) and
the z3 encoder (bit-vectors).  A thread rests only at *stable* nodes: its entry, an Op (the shared operation it will perform
next) or an End.  One step of thread t = the shared operation at its stable node + the local continuation (assignments,
branches on locals, ghost updates) up to the next stable node; local computation commutes with every other thread."""
from vf.e2 import ir
from vf.e2 import models as M
from vf.e2.front import Strings, TranslationError


class Scenario:
  """everything a set of thread programs is compiled against"""

  def __init__(self, name):
    self.name = name
    self.strings = Strings()
    self.models = []
    self.globals = {}
    self.modules = {}
    self.by_identity = []
    self.method_intrinsics = {}
    self.class_intrinsics = []
    self.ignored_attr_stores = set()
    self.programs = []
    self.ghost = {}            # ghost state variable -> initial value
    self.elem_typ = {}         # model name -> element typ of a deque / key typ of a dict
    self.sym_inputs = {}       # state variable -> (lo, hi): symbolic initial value
    self.global_locks = []     # (module name, global name, model name) of module-level locks met while translating
    self.pyobjs = []           # composite python objects that may be stored in modelled lists (referred to by their number)
    self.value_typ = {}        # dict model name -> typ of its values (e.g. ('listref', <MLists>))
    self.record_pyclass = {}   # RecordClass name -> the python class its records stand for (type(x) == Class)
    self.stored_attrs = {}     # (model name, attribute) -> value stored into an ignored attribute of a model object (thread.name)
    self.spawned = {}          # tid -> MThread model: programs of threads that the code under test creates and starts
    self.class_attrs = {}      # (python class, attribute) -> model: class attributes that are shared state (a counter, a cell, a lock)
    self.constructible = set() # python classes whose construction is translated (__init__ with a fresh composite object as self)
    self.constructed = {}      # python class -> the composite objects made on the translated paths, in translation order
    self.proto_factories = {}  # python class -> callable making a real instance: where attributes the scenario does not bind are looked up
    self.auto_bound = []       # (object name, attribute, model name, model kind) bound that way
    self.default_lists = None  # the MLists pool in which an empty list attribute that the scenario does not bind is allocated
    self.notes = []

  def add(self, model):
    self.models.append(model)
    return model

  def obj_index(self, model):
    same = [m for m in self.models if m.cls == model.cls]
    return same.index(model) + 1

  def objs_of(self, cls):
    return [m for m in self.models if m.cls == cls]

  def deque_elem_typ(self, model):
    if isinstance(model, tuple):
      return "int"
    return self.elem_typ.get(model.name, "int")

  def dict_key_typ(self, model):
    return self.elem_typ.get(model.name, "int")

  EXC = {
    ("Queue", "put_nowait"): ["Full"], ("Queue", "get_nowait"): ["Empty"], ("Queue", "task_done"): ["ValueError"],
    ("deque", "pop"): ["IndexError"], ("deque", "popleft"): ["IndexError"], ("deque", "getitem"): ["IndexError"],
    ("RLock", "release"): ["RuntimeError"], ("Thread", "start"): ["RuntimeError"], ("Thread", "join"): ["RuntimeError"],
    ("lists", "new"): ["ModelCapacity"], ("lists", "append"): ["ModelCapacity"], ("lists", "concat_new"): ["ModelCapacity"], ("lists", "iter_next"): ["StopIteration"], ("lists", "getitem"): ["IndexError"],
    ("PriorityQueue", "put"): ["ModelCapacity"], ("PriorityQueue", "task_done"): ["ValueError"],
    ("dict", "getitem"): ["KeyError"], ("dict", "setitem"): ["ModelCapacity"], ("dict", "next"): ["RuntimeError", "StopIteration"],
  }

  def op_exceptions(self, target, name):
    cls = target.cls if isinstance(target, M.Model) else target[0]
    return self.EXC.get((cls, name), [])


def liveness(prog):
  """live-in sets of thread-local variables per node (backward data flow)"""
  nodes = prog.nodes
  use, deff, succ = {}, {}, {}
  for n in nodes:
    u, d, sx = set(), set(), []
    if isinstance(n, ir.Assign):
      u = ir.expr_vars(n.expr)
      d = {n.dst}
      sx = [n.next]
    elif isinstance(n, ir.Branch):
      u = ir.expr_vars(ir.truth(n.cond))
      sx = [n.t, n.f]
    elif isinstance(n, ir.Jump):
      sx = [n.next]
    elif isinstance(n, ir.Ghost):
      u = set(getattr(n, "uses", ()))
      sx = [n.next]
    elif isinstance(n, ir.Op):
      for a in n.args:
        if not isinstance(a, int):
          u |= ir.expr_vars(a)
      if isinstance(n.target, tuple):
        u |= ir.expr_vars(n.target[1])
      d = set(n.dst or ())
      sx = [n.next] + [t for t in n.exc.values()]
    use[n.id], deff[n.id], succ[n.id] = u, d, [x for x in sx if x is not None]
  live = {n.id: set() for n in nodes}
  changed = True
  while changed:
    changed = False
    for n in reversed(nodes):
      out = set()
      for sid in succ[n.id]:
        out |= live[sid]
      new = use[n.id] | (out - deff[n.id])
      if new != live[n.id]:
        live[n.id] = new
        changed = True
  return live


class System:
  def __init__(self, scenario):
    self.sc = scenario
    self.programs = scenario.programs
    self.init = {}
    for m in scenario.models:
      self.init.update(m.init())
    # liveness: a thread-local variable is part of the state only where it is live at a stable node
    self.live = {}
    self.state_locals = {}
    for p in self.programs:
      self.live[p.tid] = liveness(p)
      keep = set()
      for n in p.nodes:
        if isinstance(n, (ir.Op, ir.End)) or n.id == p.entry:
          keep |= self.live[p.tid][n.id]
      self.state_locals[p.tid] = sorted(v for v in p.locals if v in keep)
      for v in self.state_locals[p.tid]:
        self.init[v] = p.locals[v]
    self.init.update(scenario.ghost)
    self.pcvars = ["pc.%d" % p.tid for p in self.programs]
    for p in self.programs:
      self.init["pc.%d" % p.tid] = p.entry
    self.vars = list(self.init)
    self.find_invisible()
    # liveness again, now with invisible operations as local nodes
    for p in self.programs:
      keep = set()
      for n in p.nodes:
        if self.is_stable(p, n):
          keep |= self.live[p.tid][n.id]
      drop = [v for v in self.state_locals[p.tid] if v not in keep]
      for v in drop:
        del self.init[v]
      self.state_locals[p.tid] = [v for v in self.state_locals[p.tid] if v in keep]
    self.vars = list(self.init)
    self.stable = {p.tid: [n.id for n in p.nodes if (isinstance(n, ir.Op) and self.is_stable(p, n)) or n.id == p.entry] for p in self.programs}
    self.ends = {p.tid: [n.id for n in p.nodes if isinstance(n, ir.End)] for p in self.programs}

  READS = {"get_default", "is_set", "qsize", "full", "empty", "__len__", "getitem", "load", "contains", "values_contains", "snapshot", "snapshot_items", "snapshot_keys",
           "snapshot_values", "is_alive", "iter", "next", "sleep", "iter_next"}

  def find_invisible(self):
    """an operation is invisible (merged into the preceding step like local computation) when it can never block and its object is
    touched by one thread only, or is only ever read: such an operation commutes with every operation of every other thread"""
    touch = {}       # model name -> {tid: wrote?}
    for p in self.programs:
      for n in p.nodes:
        if not isinstance(n, ir.Op):
          continue
        names = [n.target.name] if isinstance(n.target, M.Model) else [m.name for m in self.sc.objs_of(n.target[0])]
        for nm in names:
          d = touch.setdefault(nm, {})
          d[p.tid] = d.get(p.tid, False) or (n.name not in self.READS)
    self.invisible = set()
    for p in self.programs:
      for n in p.nodes:
        if not isinstance(n, ir.Op) or n.id == p.entry:
          continue
        if n.name in ("get", "put", "acquire", "join", "wait"):
          continue               # may block
        names = [n.target.name] if isinstance(n.target, M.Model) else [m.name for m in self.sc.objs_of(n.target[0])]
        ok = True
        for nm in names:
          d = touch[nm]
          only_me = set(d) == {p.tid}
          read_only = not any(d.values())
          if not (only_me or read_only):
            ok = False
        if ok and not getattr(self.sc, "no_reduction", False):
          self.invisible.add((p.tid, n.id))
    self.break_local_cycles()

  ignored_edges = None

  def break_local_cycles(self):
    self.ignored_edges = {}
    self._break_local_cycles()

  def _break_local_cycles(self):
    """every cycle of a thread's control flow must contain a stable node (otherwise one step would be unbounded):
    an invisible operation on such a cycle is made visible again"""
    for p in self.programs:
      while True:
        cyc = self.local_cycle(p)
        if cyc is None:
          break
        ops = [nid for nid in cyc if isinstance(p.nodes[nid], ir.Op)]
        if not ops:
          # a purely local loop (over a snapshot / a range of local values): bounded by the data it walks; the step-depth limit of
          # run_local guards against one that is not
          self.ignored_edges.setdefault(p.tid, set()).add((cyc[-1], cyc[0]))
          continue
        # visibility is a property of (thread, object, operation): the replay proxies cannot tell two call sites apart
        chosen = p.nodes[ops[0]]
        key = (self.target_names(chosen), chosen.name)
        for n in p.nodes:
          if isinstance(n, ir.Op) and (self.target_names(n), n.name) == key:
            self.invisible.discard((p.tid, n.id))

  def target_names(self, n):
    return tuple([n.target.name] if isinstance(n.target, M.Model) else [m.name for m in self.sc.objs_of(n.target[0])])

  def local_cycle(self, p):
    succ = {}
    for n in p.nodes:
      if self.is_stable(p, n):
        continue
      if isinstance(n, ir.Branch):
        sx = [n.t, n.f]
      elif isinstance(n, ir.Op):
        sx = [n.next] + list(n.exc.values())
      else:
        sx = [n.next]
      ign = self.ignored_edges.get(p.tid, ())
      succ[n.id] = [x for x in sx if x is not None and not self.is_stable(p, p.nodes[x]) and (n.id, x) not in ign]
    color = {}
    for root in succ:
      if root in color:
        continue
      stack = [(root, iter(succ[root]))]
      path = [root]
      color[root] = 1
      while stack:
        nid, it = stack[-1]
        nxt = next(it, None)
        if nxt is None:
          color[nid] = 2
          stack.pop()
          path.pop()
          continue
        if color.get(nxt) == 1:
          return path[path.index(nxt):]
        if nxt not in color:
          color[nxt] = 1
          stack.append((nxt, iter(succ[nxt])))
          path.append(nxt)
    return None

  def is_stable(self, p, n):
    if isinstance(n, ir.End) or n.id == p.entry:
      return True
    return isinstance(n, ir.Op) and (p.tid, n.id) not in self.invisible

  def prog(self, tid):
    return self.programs[tid]

  # ---- local continuation ---------------------------------------------------------------------------------
  def run_local(self, B, prog, pc, st, depth=0):
    """returns [(cond, final stable pc, state overlay)]"""
    out = []
    work = [(B.true(), pc, st, 0)]
    while work:
      cond, pc, st, d = work.pop()
      if d > 400:
        raise TranslationError("local computation of thread %s does not reach a shared operation (loop without one?)" % prog.name)
      node = prog.nodes[pc]
      if isinstance(node, ir.Op) and (prog.tid, node.id) in self.invisible:
        for (c, nxt, st2, _info) in self.op_outcomes(B, st, prog, node):
          c = c if B is ir.ConcreteB else __import__("z3").simplify(c)
          if (B is ir.ConcreteB and not c) or (B is not ir.ConcreteB and __import__("z3").is_false(c)):
            continue
          work.append((B.and_(cond, c), nxt, st2, d + 1))
        continue
      if isinstance(node, (ir.Op, ir.End)):
        # canonical state: locals that are dead here are zeroed, temporaries of the step are dropped
        live = self.live[prog.tid][pc]
        st = dict(st)
        for v in prog.locals:
          if v in st and v not in self.init:
            del st[v]
          elif v in self.init and v not in live:
            st[v] = B.const(0)
        out.append((cond, pc, st))
        continue
      if isinstance(node, ir.Jump):
        work.append((cond, node.next, st, d + 1))
      elif isinstance(node, ir.Assign):
        st2 = dict(st)
        st2[node.dst] = ir.evint(node.expr, st, B)
        work.append((cond, node.next, st2, d + 1))
      elif isinstance(node, ir.Ghost):
        st2 = dict(st)
        st2.update(node.fn(B, st, prog.tid))
        work.append((cond, node.next, st2, d + 1))
      elif isinstance(node, ir.Branch):
        c = ir.ev(ir.truth(node.cond), st, B)
        if B is ir.ConcreteB:
          work.append((cond, node.t if c else node.f, st, d + 1))
        else:
          import z3
          c = z3.simplify(c)
          if z3.is_true(c):
            work.append((cond, node.t, st, d + 1))
          elif z3.is_false(c):
            work.append((cond, node.f, st, d + 1))
          else:
            work.append((B.and_(cond, c), node.t, st, d + 1))
            work.append((B.and_(cond, B.not_(c)), node.f, st, d + 1))
      else:
        raise TranslationError("node %r" % node)
    return out

  # ---- one step -----------------------------------------------------------------------------------------------
  def alternatives(self, B, st, tid, pc):
    """possible steps of thread tid resting at stable node pc: [(guard, next stable pc, overlay state, info)]"""
    prog = self.prog(tid)
    node = prog.nodes[pc]
    alts = []
    if isinstance(node, ir.End):
      return alts
    if not isinstance(node, ir.Op):        # entry: a start step
      guard = B.true()
      sp = getattr(self.sc, "spawned", {}).get(tid)
      if sp is not None:
        # a thread created by the code under test: it can take its first step once Thread.start() has been called on it
        guard = B.eq(st[sp.v("st")], B.const(1))
      for (c, pc2, st2) in self.run_local(B, prog, node.next, st):
        alts.append((B.and_(guard, c), pc2, st2, ("<begin>", None)))
      return alts
    for (c, nxt, st2, info) in self.op_outcomes(B, st, prog, node):
      for (c2, pc2, st3) in self.run_local(B, prog, nxt, st2):
        alts.append((B.and_(c, c2), pc2, st3, info))
    return alts

  def op_outcomes(self, B, st, prog, node):
    """[(condition, next node, state after the operation, (name, kind))]"""
    tid = prog.tid
    args = [a if isinstance(a, int) else ir.evint(a, st, B) for a in node.args]
    target = node.target
    if isinstance(target, M.Model):
      outcomes = target.apply(B, st, node.name, args, tid)
    else:
      cls, idxx = target
      idx = ir.evint(idxx, st, B)
      outcomes = []
      for m in self.sc.objs_of(cls):
        here = B.eq(idx, B.const(self.sc.obj_index(m)))
        for (c, kind, res, up) in m.apply(B, st, node.name, args, tid):
          outcomes.append((B.and_(here, c), kind, res, up))
    out = []
    for (c, kind, res, up) in outcomes:
      st2 = dict(st)
      st2.update(up)
      if kind == "ok":
        if node.dst:
          if isinstance(res, tuple):
            for d, r in zip(node.dst, res):
              st2[d] = r
          else:
            st2[node.dst[0]] = res
        nxt = node.next
      else:
        exname = kind.split(":", 1)[1]
        nxt = node.exc.get(exname)
        if nxt is None:
          raise TranslationError("operation %s raised %s but no edge was compiled for it" % (node.name, exname))
      out.append((c, nxt, st2, (node.name, kind)))
    return out

  # ---- concrete interpreter -----------------------------------------------------------------------------------
  def initial(self, inputs=None):
    st = dict(self.init)
    if inputs:
      st.update(inputs)
    return st

  def enabled_concrete(self, st):
    out = []
    for p in self.programs:
      pc = st["pc.%d" % p.tid]
      if any(g for (g, _, _, _) in self.alternatives(ir.ConcreteB, st, p.tid, pc)):
        out.append(p.tid)
    return out

  def step_concrete(self, st, tid):
    """returns (new state, info) or None if thread tid is not enabled"""
    pc = st["pc.%d" % tid]
    for (g, pc2, st2, info) in self.alternatives(ir.ConcreteB, st, tid, pc):
      if g:
        st2 = dict(st2)
        st2["pc.%d" % tid] = pc2
        node = self.prog(tid).nodes[pc]
        tgt = getattr(node, "target", None)
        if isinstance(tgt, tuple):
          idx = ir.evint(tgt[1], st, ir.ConcreteB)
          objs = self.sc.objs_of(tgt[0])
          tname = objs[idx - 1].name if 1 <= idx <= len(objs) else tgt[0]
        else:
          tname = getattr(tgt, "name", None)
        return st2, {"tid": tid, "pc": pc, "op": info[0], "outcome": info[1], "src": node.src, "target": tname}
    return None

  def run_concrete(self, schedule, inputs=None):
    st = self.initial(inputs)
    trace = []
    for tid in schedule:
      r = self.step_concrete(st, tid)
      if r is None:
        trace.append({"tid": tid, "blocked": True})
        break
      st, info = r
      trace.append(info)
    return st, trace

  def describe(self, tid, pc):
    node = self.prog(tid).nodes[pc]
    if isinstance(node, ir.End):
      return "end(%s)" % node.kind
    if isinstance(node, ir.Op):
      t = node.target.name if isinstance(node.target, M.Model) else "%s[*]" % node.target[0]
      return "%s.%s @%s:%s" % (t, node.name, (node.src or ("?", 0))[0].split(".")[-1], (node.src or ("?", 0))[1])
    return "<begin>"
