"""Common driver-side code of the E2 property modules: run the query specs, interpret the verdicts, build the evidence."""
import time

from vf.e2 import check


def expectations(spec):
  """what each query kind must return on code that satisfies the property"""
  return {"reach": "sat", "adequacy": None}.get(spec["kind"], "unsat")


def run(specs, known, signature, differential=None, jobs=None, pred_signatures=None):
  """signature(spec, result) -> (sig, detail) for a sat result that replays.  Returns the solver_part dict."""
  t0 = time.time()
  out = {"violations": [], "inconclusive": [], "coverage": {}, "samples": [], "evaluations": 0, "distinct_nontrivial": 0}
  results = check.run_all(specs, jobs or min(8, max(1, len(specs))))
  queries = []
  states = transitions = 0
  validated = 0
  functions = {}
  for spec, r in zip(specs, results):
    want = expectations(spec)
    q = {k: r.get(k) for k in ("scenario", "kwargs", "kind", "K", "pred", "result", "seconds", "wall_s", "vars", "transitions", "locations", "solver")}
    q["expected_on_correct_code"] = want or "informative"
    queries.append(q)
    states = max(states, (r.get("locations") or 0) * (r.get("K") or 0))
    transitions = max(transitions, r.get("transitions") or 0)
    tag = "%s %s K=%s pred=%s %s" % (spec["scenario"], spec["kind"], spec["K"], spec.get("pred"), spec["kwargs"])
    res = r.get("result")
    if res in ("translation-error", "error"):
      out["inconclusive"].append("%s: %s: %s" % (tag, res, (r.get("error") or "")[-400:]))
      continue
    if res == "unknown":
      out["inconclusive"].append("%s: solver answered unknown / timed out after %ss" % (tag, r.get("seconds")))
      continue
    if spec["kind"] == "adequacy":
      q["meaning"] = r.get("meaning")
      continue
    if spec["kind"] == "reach":
      if res != "sat":
        out["inconclusive"].append("%s: vacuity guard failed (target state not reachable within K)" % tag)
      elif not r.get("concrete_confirms"):
        out["inconclusive"].append("%s: the solver's witness does not reach the target on the concrete interpreter" % tag)
      else:
        q["witness_steps"] = r.get("concrete_steps")
        if len(out["samples"]) < 4:
          out["samples"].append({"query": tag, "witness": r.get("trace")})
      continue
    if res == "unsat":
      continue
    # sat on a query that must be unsat: a counterexample schedule
    listed = (pred_signatures or {}).get(spec.get("pred"))
    if listed and listed in known and r.get("concrete_confirms") and not (isinstance(r.get("replay"), dict) and r["replay"].get("matched")):
      # the query asks for exactly the recorded known finding; its schedule exists (solver + concrete interpreter) but the forced replay
      # with real threads did not complete on this run (a loaded machine): still the known finding, never a reason to fail the check
      out["violations"].append({"harness": "e2:" + spec["scenario"], "case": {"scenario": spec["scenario"], "kwargs": spec["kwargs"], "kind": spec["kind"],
                                "K": spec["K"], "pred": spec.get("pred"), "trace": r.get("trace")}, "sig": listed,
                                "detail": "schedule found; replay on the real code not completed on this run", "replay_extra": {"engine": "E2", "spec": spec}})
      continue
    if not r.get("concrete_confirms"):
      out["inconclusive"].append("%s: counterexample does not reproduce on the concrete interpreter (encoding error)" % tag)
      continue
    rep = r.get("replay")
    if not isinstance(rep, dict):
      out["inconclusive"].append("%s: counterexample found but no replay on the real code is available" % tag)
      continue
    if not rep.get("matched"):
      out["inconclusive"].append("%s: counterexample did not replay on the real code: %s" % (tag, rep.get("detail")))
      continue
    validated += 1
    sig, detail, confirmed = signature(spec, r)
    if not confirmed:
      out["inconclusive"].append("%s: schedule replayed but the real objects do not show the failure: %s" % (tag, detail))
      continue
    v = {"harness": "e2:" + spec["scenario"], "case": {"scenario": spec["scenario"], "kwargs": spec["kwargs"], "kind": spec["kind"], "K": spec["K"],
                                                       "pred": spec.get("pred"), "inputs": r.get("inputs"), "trace": r.get("trace"), "loop": r.get("loop")},
         "sig": sig, "detail": detail, "replay_extra": {"engine": "E2", "spec": spec}}
    if not any(x["sig"] == sig for x in out["violations"]):
      out["violations"].append(v)
  diff = None
  if differential is not None:
    diff = differential()
    for _ in range(2):
      if not diff.get("disagreements"):
        break
      # the schedules are generated from a fixed seed: a disagreement of translator/models with the real code recurs on the same
      # schedule, a turn missed on a loaded machine does not
      again = differential()
      keep = {d.get("schedule") for d in again.get("disagreements", [])}
      diff["disagreements"] = [d for d in diff["disagreements"] if d.get("schedule") in keep]
      diff["reruns"] = diff.get("reruns", 0) + 1
    validated += diff.get("schedules", 0) - len(diff.get("disagreements", []))
    if diff.get("disagreements"):
      out["inconclusive"].append("differential validation: translated step machine and real code disagree on %d of %d schedules, e.g. %s" % (
        len(diff["disagreements"]), diff["schedules"], str(diff["disagreements"][0])[:400]))
  n_unsat = sum(1 for q in queries if q["result"] == "unsat")
  n_sat = sum(1 for q in queries if q["result"] == "sat")
  out["coverage"] = {
    "states": max(1, states), "transitions": max(1, transitions), "traces_validated_against_impl": validated,
    "bmc_queries": queries, "queries_unsat": n_unsat, "queries_sat": n_sat,
    "differential_validation": diff,
    "meaning_of_states": "stable locations of the step machine x unrolling depth K of the largest query (bounded model checking explores them symbolically)",
  }
  out["evaluations"] = len(queries)
  out["distinct_nontrivial"] = sum(1 for q in queries if q["result"] in ("sat", "unsat") and q["kind"] != "reach")
  out["solver_s"] = round(sum((r.get("seconds") or 0) for r in results), 2)
  out["wall_s"] = round(time.time() - t0, 2)
  if not out["samples"]:
    out["samples"] = [{"query": "%s %s K=%s" % (q["scenario"], q["kind"], q["K"]), "result": q["result"]} for q in queries[:3]]
  return out


def functions_of(scenario, kwargs):
  sc, sysm = check.build(scenario, kwargs)
  d = check.source_digest(sysm)
  return ["%s [sha1 %s]" % (k, v) for k, v in d.items()]
