"""Scenarios: which real functions run in which modelled thread, against which model objects, with which ghost state."""
import ast
import textwrap

from vf.e2 import ir, models as M
from vf.e2.front import (Compiler, PyObj, RecordClass, SF, SP, SO, SK, SE, SI, SNs, SRec, ST, TranslationError, Val)
from vf.e2.ir import V, K, NONE
from vf.e2.machine import Scenario, System


def driver(src, name):
  """a scenario-side driver written in python, compiled by the same front end"""
  tree = ast.parse(textwrap.dedent(src))
  node = [n for n in tree.body if isinstance(n, ast.FunctionDef) and n.name == name][0]
  return node


def signals_ns(sc):
  import miros.event as ev
  ns = SNs({k: v for k, v in ev.signals.items()}, "signals")
  sc.by_identity.append((ev.signals, ns))
  sc.globals["signals"] = ns
  return ns


class RefDeque(M.MDeque):
  """the pending-event deque plus a ghost reference deque that receives every insertion with the *intended* discipline of the
  inserted event (kind variable per event: 0 fifo -> back, 1 lifo -> front); popleft compares with the reference's front"""

  def __init__(self, name, maxlen, kinds, items=()):
    super().__init__(name, maxlen, items)
    self.kinds = kinds           # event id -> state variable holding its intended kind
    self.ref = M.MDeque(name + ".ref", maxlen, items)

  def init(self):
    d = super().init()
    d.update(self.ref.init())
    d[self.v("order_bad")] = 0
    return d

  def apply(self, B, st, op, args, tid):
    outs = super().apply(B, st, op, args, tid)
    if op in ("append", "appendleft"):
      x = args[0]
      lifo = B.false()
      for eid, kv in self.kinds.items():
        lifo = B.or_(lifo, B.and_(B.eq(x, B.const(eid)), B.eq(st[kv], B.const(1))))
      (_, _, _, up_b), = self.ref.apply(B, st, "append", args, tid)
      (_, _, _, up_f), = self.ref.apply(B, st, "appendleft", args, tid)
      res = []
      for (c, kind, r, up) in outs:
        up = dict(up)
        for v in up_b:
          up[v] = B.ite(lifo, up_f[v], up_b[v])
        res.append((c, kind, r, up))
      return res
    if op == "popleft":
      rl = st[self.ref.v("len")]
      front = st[self.ref.v("c0")]
      res = []
      for (c, kind, r, up) in outs:
        up = dict(up)
        if kind == "ok":
          refup = [o for o in self.ref.apply(B, st, "popleft", [], tid) if o[1] == "ok"][0][3]
          nonempty = B.not_(B.eq(rl, B.const(0)))
          for v, val in refup.items():
            up[v] = B.ite(nonempty, val, st[v])
          wrong = B.or_(B.not_(nonempty), B.not_(B.eq(front, r)))
          up[self.v("order_bad")] = B.ite(wrong, B.const(1), st[self.v("order_bad")])
        res.append((c, kind, r, up))
      return res
    return outs


def posting(nposters=2, posts=(1, 1), capacity=3, handler_post=False, pending=0, kinds_symbolic=True, with_stop=False, ghost_order=True):
  """posters x consumer of one active object (C04, C05).
  posts[i] = number of posts of poster i; every post's kind (fifo/lifo) is a symbolic input bit."""
  import miros.activeobject as ao
  import miros.hsm as hsm
  sc = Scenario("posting")
  sig = signals_ns(sc)
  EV = RecordClass("event", ["signal", "signal_name"])
  USER = 11
  events = []
  kinds = {}
  n_events = sum(posts) + (1 if handler_post else 0) + pending
  for i in range(n_events):
    r = EV.new(signal=SK(USER, USER), signal_name=SK(sc.strings.code("E%d" % i), "E%d" % i))
    events.append(r)
    kv = "in.kind.e%d" % r.rid
    kinds[r.rid] = kv
    sc.ghost[kv] = 0
    if kinds_symbolic:
      sc.sym_inputs[kv] = (0, 1)
    if ghost_order:
      sc.ghost["disp.e%d" % r.rid] = 0
  stop_ev = EV.new(signal=SK(sig.attrs["STOP_ACTIVE_OBJECT_SIGNAL"], 8), signal_name=SK(sc.strings.code("STOP"), "STOP"))
  pend = events[len(events) - pending:] if pending else []
  Q = sc.add(M.MQueue("Q", capacity, count=len(pend)))
  if ghost_order:
    D = sc.add(RefDeque("D", capacity, kinds, items=[e.rid for e in pend]))
  else:
    D = sc.add(M.MDeque("D", capacity, items=[e.rid for e in pend]))
  for e in pend:
    sc.sym_inputs.pop(kinds[e.rid], None)
  sc.elem_typ["D"] = ("rec", EV)
  task_event = sc.add(M.MEvent("task_event", 1))
  fabric_event = sc.add(M.MEvent("fabric_event", 1))
  ld = PyObj(ao.LockingDeque, {"deque": D, "locking_queue": Q}, "locking_deque")
  obj = PyObj(ao.ActiveObject, {"queue": ld, "locking_deque": ld, "instrumented": False, "live_spy": False, "live_trace": False,
                                "activeobject_task_event": task_event, "fabric_task_event": fabric_event}, "active_object")
  sc.class_intrinsics.append((ao.HsmEvent, lambda comp, a, k: EV.intern(signal=k["signal"], signal_name=SK(sc.strings.code("STOP"), "STOP"))))
  hp = events[sum(posts)] if handler_post else None
  if handler_post:
    sc.ghost["in.hpost"] = 0
    sc.sym_inputs["in.hpost"] = (0, 1)

  def ghost_dispatch(comp, args, kwargs):
    e = args[0]

    if not ghost_order:
      return SK(NONE, None)

    def fn(B, st, tid, _e=comp.intx(e)):
      ev = ir.evint(_e, st, B)
      up = {}
      for r in events:
        v = "disp.e%d" % r.rid
        up[v] = B.ite(B.eq(ev, B.const(r.rid)), B.add(st[v], B.const(1)), st[v])
      return up
    comp.ghost(fn, "dispatch", uses=[comp.intx(e)])
    return SK(NONE, None)

  stub_src = """
  def dispatch_stub(self, e):
    ghost_dispatch(e)
    if HPOST:
      if e is FIRST:
        if KH:
          self.post_lifo(HP)
        else:
          self.post_fifo(HP)
  """
  stub = driver(stub_src, "dispatch_stub")

  def dispatch_intrinsic(comp, self_val, args, kwargs):
    e = kwargs.get("e", args[0] if args else None)
    clo = {"ghost_dispatch": SI(ghost_dispatch), "HPOST": SE(V("in.hpost")) if handler_post else SK(0, False),
           "FIRST": events[0], "KH": SE(V(kinds[hp.rid])) if hp else SK(0, False), "HP": hp if hp else SK(NONE, None)}
    return comp.call_function(SF(node=stub, closure=clo, qualname="scenario.dispatch_stub", globs={}), [self_val, e], {})
  sc.method_intrinsics[("HsmWithQueues", "dispatch")] = dispatch_intrinsic

  poster_src = """
  def poster1(ao, e1, k1):
    if k1:
      ao.post_lifo(e1)
    else:
      ao.post_fifo(e1)

  def poster2(ao, e1, k1, e2, k2):
    if k1:
      ao.post_lifo(e1)
    else:
      ao.post_fifo(e1)
    if k2:
      ao.post_lifo(e2)
    else:
      ao.post_fifo(e2)
  """
  tid = 0
  ei = 0
  for p in range(nposters):
    c = Compiler(sc, tid, "poster%d" % p)
    n = posts[p]
    args = [SP(obj)]
    for j in range(n):
      e = events[ei]
      ei += 1
      args += [e, SE(V(kinds[e.rid]))]
    c.call_function(SF(node=driver(poster_src, "poster%d" % n), closure={}, qualname="scenario.poster%d" % n, globs={}), args, {})
    sc.programs.append(c.finish())
    tid += 1
  c = Compiler(sc, tid, "consumer")
  c.call_function(SF(fn=ao.ActiveObject.run_event, self_val=SP(obj), defcls=ao.ActiveObject), [SO(task_event), SO(fabric_event), SP(ld)], {})
  sc.programs.append(c.finish())
  sc.info = {"events": [e.rid for e in events], "posters": list(range(nposters)), "consumer": tid, "D": D, "Q": Q, "kinds": kinds,
             "handler_post_event": hp.rid if hp else None, "capacity": capacity, "posts": list(posts)}
  return sc


def bind_instance(sc, obj, name, special=None):
  """bind the attributes of a real instance by introspection: locks -> RLock models, events -> Event models, attributes listed in
  `special` as given; everything else that is a plain constant is lifted as a constant"""
  import threading
  attrs = {}
  special = special or {}
  lock_types = (type(threading.RLock()), type(threading.Lock()))
  for k, v in vars(obj).items():
    if k in special:
      attrs[k] = special[k]
    elif isinstance(v, lock_types):
      attrs[k] = sc.add(M.MRLock("%s.%s" % (name, k)))
    elif isinstance(v, threading.Event):
      attrs[k] = sc.add(M.MEvent("%s.%s" % (name, k), 1 if v.is_set() else 0))
    elif v is None or isinstance(v, (bool, int, str)):
      attrs[k] = v
  return attrs


def singleton(nthreads=2):
  """N threads make the first request of a singleton at once (C30): the real SingletonDecorator.__call__"""
  import miros.singleton as sg
  sc = Scenario("singleton")
  alloc = sc.add(M.MAlloc("klass", first=1))
  inst = sc.add(M.MAttr("instance", NONE))

  class Probe:
    pass
  real = sg.SingletonDecorator(Probe)
  klass = SI(lambda comp, a, k: comp.op(alloc, "new", []), "klass")
  attrs = bind_instance(sc, real, "decorator", {"klass": klass, "instance": inst})
  dec = PyObj(sg.SingletonDecorator, attrs, "decorator")
  src = """
  def caller(dec):
    r = dec()
    record(r)
  """
  for t in range(nthreads):
    sc.ghost["res.%d" % t] = 0
    c = Compiler(sc, t, "caller%d" % t)

    def record(comp, args, kwargs, _t=t):
      x = comp.intx(args[0])

      def fn(B, st, tid, _x=x):
        return {"res.%d" % _t: ir.evint(_x, st, B)}
      comp.ghost(fn, "record", uses=[x])
      return SK(NONE, None)
    c.call_function(SF(node=driver(src, "caller"), closure={"record": SI(record)}, qualname="scenario.caller", globs={}), [SP(dec)], {})
    sc.programs.append(c.finish())
  sc.info = {"nthreads": nthreads, "lock_attrs": [k for k, v in attrs.items() if isinstance(v, M.MRLock)]}
  return sc


# ---- thread-safe attributes (C27) ----------------------------------------------------------------------------------
TSA_CONST = {0: 1, 1: 2, 2: 4}          # per thread: the constant its statement uses
TSA_ASSIGN = {0: 9, 1: 10, 2: 12}


def tsa_statement_text(kind, t):
  """the source line of the statement thread t executes, taken from the real functions the replay runs"""
  import inspect
  from vf.e2 import tsa_statements as S
  fn = getattr(S, "%s_%d" % (kind, t))
  return inspect.getsource(fn).splitlines()[1] + "\n"


def tsa(kinds=("aug", "assign")):
  """threads executing one statement each on the same thread-safe attribute of the same instance (C27);
  kinds[t] in {'read', 'assign', 'aug'}: the descriptor calls CPython makes for `v = o.x`, `o.x = c`, `o.x += c`"""
  import ast as _ast
  import inspect
  import threading
  import miros.thread_safe_attributes as tsmod
  sc = Scenario("tsa")
  real = tsmod.ThreadSafeAttribute(initial_value=0, name="x")
  # attributes assigned inside __get__/__set__ are shared mutable state of the descriptor
  written = set()
  for fname in ("__get__", "__set__"):
    tree = _ast.parse(textwrap.dedent(inspect.getsource(getattr(tsmod.ThreadSafeAttribute, fname))))
    for n in _ast.walk(tree):
      if isinstance(n, (_ast.Assign, _ast.AugAssign)):
        for tg in (n.targets if isinstance(n, _ast.Assign) else [n.target]):
          if isinstance(tg, _ast.Attribute) and isinstance(tg.value, _ast.Name) and tg.value.id == "self":
            written.add(tg.attr)
  special = {}
  for a in sorted(written):
    cur = getattr(real, a, None)
    init = NONE if cur is None else (1 if cur is True else (0 if cur is False else cur))
    if not isinstance(init, int):
      raise TranslationError("descriptor attribute %s has an initial value that is not modelled: %r" % (a, cur))
    special[a] = sc.add(M.MAttr("desc." + a, init))
  attrs = bind_instance(sc, real, "desc", special)
  for a in written:
    attrs.setdefault(a, special[a])
  desc = PyObj(tsmod.ThreadSafeAttribute, attrs, "descriptor")
  vals = sc.add(M.MDict("vals", 1))
  sc.elem_typ["vals"] = "str"
  inst = PyObj(object, {"__dict__": PyObj(dict, {}, "instance.__dict__", model=vals)}, "instance")
  texts = {}

  def frame_line(comp):
    return texts[comp.tid]
  sc.modules["inspect"] = SNs({
    "currentframe": SI(lambda comp, a, k: SNs({"f_back": SNs({}, "frame")}, "frame")),
    "getframeinfo": SI(lambda comp, a, k: ST([])),
  }, "inspect")
  sc.class_intrinsics.append((tsmod.FrameData, lambda comp, a, k: SNs({"lines": ST([SK(sc.strings.code(frame_line(comp)), frame_line(comp))])}, "FrameData")))
  sc.modules["threading"] = SNs({"get_ident": SI(lambda comp, a, k: SK(comp.tid + 1, comp.tid + 1)),
                                 "current_thread": SI(lambda comp, a, k: SK(comp.tid + 1, comp.tid + 1))}, "threading")
  sc.modules["re"] = SNs({}, "re")
  sc.by_identity.append((threading.get_ident, SI(lambda comp, a, k: SK(comp.tid + 1, comp.tid + 1))))

  def real_predicate(name):
    def f(comp, self_val, args, kwargs):
      line = args[0]
      if not isinstance(line, SK) or not isinstance(line.py, str):
        raise TranslationError("%s on a line that is not static" % name)
      return comp.lift(bool(getattr(real, name)(line.py)))
    return f
  sc.method_intrinsics[("ThreadSafeAttribute", "is_not_atomic")] = real_predicate("is_not_atomic")
  sc.method_intrinsics[("ThreadSafeAttribute", "request_for_lock")] = real_predicate("request_for_lock")
  src = """
  def t_read(desc, inst):
    v = desc.__get__(inst, None)
    record(v)

  def t_assign(desc, inst, c):
    desc.__set__(inst, c)

  def t_aug(desc, inst, c):
    v = desc.__get__(inst, None)
    desc.__set__(inst, v + c)
  """
  for t, kind in enumerate(kinds):
    texts[t] = tsa_statement_text(kind, t)
    sc.ghost["read.%d" % t] = 0
    c = Compiler(sc, t, "%s%d" % (kind, t))

    def record(comp, args, kwargs, _t=t):
      x = comp.intx(args[0])
      comp.ghost(lambda B, st, tid, _x=x: {"read.%d" % _t: ir.evint(_x, st, B)}, "record", uses=[x])
      return SK(NONE, None)
    args = [SP(desc), SP(inst)]
    if kind == "assign":
      args.append(SK(TSA_ASSIGN[t], TSA_ASSIGN[t]))
    elif kind == "aug":
      args.append(SK(TSA_CONST[t], TSA_CONST[t]))
    c.call_function(SF(node=driver(src, "t_" + kind), closure={"record": SI(record)}, qualname="scenario.t_" + kind, globs={}), args, {})
    sc.programs.append(c.finish())
  sc.info = {"kinds": list(kinds), "lock_attrs": [k for k, v in attrs.items() if isinstance(v, M.MRLock)],
             "shared_attrs": sorted(written), "texts": texts, "lock_names": ["desc." + k for k, v in attrs.items() if isinstance(v, M.MRLock)]}
  return sc
