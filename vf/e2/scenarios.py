"""Scenarios: which real functions run in which modelled thread, against which model objects, with which ghost state."""
import ast
import textwrap

from vf.e2 import ir, models as M
from vf.e2.front import (Compiler, PyObj, RecordClass, SF, SP, SO, SK, SE, SI, SNs, SRec, ST, TranslationError, Val)
from vf.e2.ir import V, K, NONE
from vf.e2.machine import Scenario, System


def driver(src, name):
  """a scenario-side driver written in python, compiled by the same front end"""
  tree = ast.parse(textwrap.dedent(src))
  node = [n for n in tree.body if isinstance(n, ast.FunctionDef) and n.name == name][0]
  return node


def signals_ns(sc):
  import miros.event as ev
  ns = SNs({k: v for k, v in ev.signals.items()}, "signals")
  sc.by_identity.append((ev.signals, ns))
  sc.globals["signals"] = ns
  return ns


class RefDeque(M.MDeque):
  """the pending-event deque plus a ghost reference deque that receives every insertion with the *intended* discipline of the
  inserted event (kind variable per event: 0 fifo -> back, 1 lifo -> front); popleft compares with the reference's front"""

  def __init__(self, name, maxlen, kinds, items=()):
    super().__init__(name, maxlen, items)
    self.kinds = kinds           # event id -> state variable holding its intended kind
    self.ref = M.MDeque(name + ".ref", maxlen, items)

  def init(self):
    d = super().init()
    d.update(self.ref.init())
    d[self.v("order_bad")] = 0
    return d

  def apply(self, B, st, op, args, tid):
    outs = super().apply(B, st, op, args, tid)
    if op in ("append", "appendleft"):
      x = args[0]
      lifo = B.false()
      for eid, kv in self.kinds.items():
        lifo = B.or_(lifo, B.and_(B.eq(x, B.const(eid)), B.eq(st[kv], B.const(1))))
      (_, _, _, up_b), = self.ref.apply(B, st, "append", args, tid)
      (_, _, _, up_f), = self.ref.apply(B, st, "appendleft", args, tid)
      res = []
      for (c, kind, r, up) in outs:
        up = dict(up)
        for v in up_b:
          up[v] = B.ite(lifo, up_f[v], up_b[v])
        res.append((c, kind, r, up))
      return res
    if op == "popleft":
      rl = st[self.ref.v("len")]
      front = st[self.ref.v("c0")]
      res = []
      for (c, kind, r, up) in outs:
        up = dict(up)
        if kind == "ok":
          refup = [o for o in self.ref.apply(B, st, "popleft", [], tid) if o[1] == "ok"][0][3]
          nonempty = B.not_(B.eq(rl, B.const(0)))
          for v, val in refup.items():
            up[v] = B.ite(nonempty, val, st[v])
          wrong = B.or_(B.not_(nonempty), B.not_(B.eq(front, r)))
          up[self.v("order_bad")] = B.ite(wrong, B.const(1), st[self.v("order_bad")])
        res.append((c, kind, r, up))
      return res
    return outs


def posting(nposters=2, posts=(1, 1), capacity=3, handler_post=False, pending=0, kinds_symbolic=True, with_stop=False, ghost_order=True, spare=0):
  """posters x consumer of one active object (C04, C05).
  posts[i] = number of posts of poster i; every post's kind (fifo/lifo) is a symbolic input bit."""
  import miros.activeobject as ao
  import miros.hsm as hsm
  sc = Scenario("posting")
  prototypes(sc)
  sig = signals_ns(sc)
  EV = RecordClass("event", ["signal", "signal_name"])
  USER = 11
  events = []
  kinds = {}
  n_events = sum(posts) + (1 if handler_post else 0) + pending
  for i in range(n_events):
    r = EV.new(signal=SK(USER, USER), signal_name=SK(sc.strings.code("E%d" % i), "E%d" % i))
    events.append(r)
    kv = "in.kind.e%d" % r.rid
    kinds[r.rid] = kv
    sc.ghost[kv] = 0
    if kinds_symbolic:
      sc.sym_inputs[kv] = (0, 1)
    if ghost_order:
      sc.ghost["disp.e%d" % r.rid] = 0
  stop_ev = EV.new(signal=SK(sig.attrs["STOP_ACTIVE_OBJECT_SIGNAL"], 8), signal_name=SK(sc.strings.code("STOP"), "STOP"))
  pend = events[len(events) - pending:] if pending else []
  # spare = wake-up tokens without an event (left behind when the consumer handled an event that a top-up token announced: a state real
  # runs reach, see the spurious wake-ups in C04's own traces)
  Q = sc.add(M.MQueue("Q", capacity, count=len(pend) + spare))
  if ghost_order:
    D = sc.add(RefDeque("D", capacity, kinds, items=[e.rid for e in pend]))
  else:
    D = sc.add(M.MDeque("D", capacity, items=[e.rid for e in pend]))
  for e in pend:
    sc.sym_inputs.pop(kinds[e.rid], None)
  sc.elem_typ["D"] = ("rec", EV)
  task_event = sc.add(M.MEvent("task_event", 1))
  fabric_event = sc.add(M.MEvent("fabric_event", 1))
  ld = PyObj(ao.LockingDeque, {"deque": D, "locking_queue": Q}, "locking_deque")
  obj = PyObj(ao.ActiveObject, {"queue": ld, "locking_deque": ld, "instrumented": False, "live_spy": False, "live_trace": False,
                                "activeobject_task_event": task_event, "fabric_task_event": fabric_event}, "active_object")
  sc.class_intrinsics.append((ao.HsmEvent, lambda comp, a, k: EV.intern(signal=k["signal"], signal_name=SK(sc.strings.code("STOP"), "STOP"))))
  hp = events[sum(posts)] if handler_post else None
  if handler_post:
    sc.ghost["in.hpost"] = 0
    sc.sym_inputs["in.hpost"] = (0, 1)

  def ghost_dispatch(comp, args, kwargs):
    e = args[0]

    if not ghost_order:
      return SK(NONE, None)

    def fn(B, st, tid, _e=comp.intx(e)):
      ev = ir.evint(_e, st, B)
      up = {}
      for r in events:
        v = "disp.e%d" % r.rid
        up[v] = B.ite(B.eq(ev, B.const(r.rid)), B.add(st[v], B.const(1)), st[v])
      return up
    comp.ghost(fn, "dispatch", uses=[comp.intx(e)])
    return SK(NONE, None)

  stub_src = """
  def dispatch_stub(self, e):
    ghost_dispatch(e)
    if HPOST:
      if e is FIRST:
        if KH:
          self.post_lifo(HP)
        else:
          self.post_fifo(HP)
  """
  stub = driver(stub_src, "dispatch_stub")

  def dispatch_intrinsic(comp, self_val, args, kwargs):
    e = kwargs.get("e", args[0] if args else None)
    clo = {"ghost_dispatch": SI(ghost_dispatch), "HPOST": SE(V("in.hpost")) if handler_post else SK(0, False),
           "FIRST": events[0], "KH": SE(V(kinds[hp.rid])) if hp else SK(0, False), "HP": hp if hp else SK(NONE, None)}
    return comp.call_function(SF(node=stub, closure=clo, qualname="scenario.dispatch_stub", globs={}), [self_val, e], {})
  sc.method_intrinsics[("HsmWithQueues", "dispatch")] = dispatch_intrinsic

  poster_src = """
  def poster1(ao, e1, k1):
    if k1:
      ao.post_lifo(e1)
    else:
      ao.post_fifo(e1)

  def poster2(ao, e1, k1, e2, k2):
    if k1:
      ao.post_lifo(e1)
    else:
      ao.post_fifo(e1)
    if k2:
      ao.post_lifo(e2)
    else:
      ao.post_fifo(e2)
  """
  tid = 0
  ei = 0
  for p in range(nposters):
    c = Compiler(sc, tid, "poster%d" % p)
    n = posts[p]
    args = [SP(obj)]
    for j in range(n):
      e = events[ei]
      ei += 1
      args += [e, SE(V(kinds[e.rid]))]
    c.call_function(SF(node=driver(poster_src, "poster%d" % n), closure={}, qualname="scenario.poster%d" % n, globs={}), args, {})
    sc.programs.append(c.finish())
    tid += 1
  c = Compiler(sc, tid, "consumer")
  c.call_function(SF(fn=ao.ActiveObject.run_event, self_val=SP(obj), defcls=ao.ActiveObject), [SO(task_event), SO(fabric_event), SP(ld)], {})
  sc.programs.append(c.finish())
  sc.info = {"events": [e.rid for e in events], "posters": list(range(nposters)), "consumer": tid, "D": D, "Q": Q, "kinds": kinds,
             "handler_post_event": hp.rid if hp else None, "capacity": capacity, "posts": list(posts)}
  return sc


def prototypes(sc):
  """real instances in which the translator looks up an attribute that the scenario does not bind (see Compiler.auto_bind)"""
  import miros.activeobject as ao
  sc.proto_factories[ao.LockingDeque] = lambda: ao.LockingDeque()
  sc.proto_factories[ao.ActiveFabricSource] = lambda: ao.ActiveFabricSource()
  sc.proto_factories[ao.ActiveObject] = lambda: ao.ActiveObject(name="prototype")


def bind_instance(sc, obj, name, special=None):
  """bind the attributes of a real instance by introspection: locks -> RLock models, events -> Event models, attributes listed in
  `special` as given; everything else that is a plain constant is lifted as a constant"""
  import threading
  attrs = {}
  special = special or {}
  lock_types = (type(threading.RLock()), type(threading.Lock()))
  for k, v in vars(obj).items():
    if k in special:
      attrs[k] = special[k]
    elif isinstance(v, lock_types):
      attrs[k] = sc.add(M.MRLock("%s.%s" % (name, k), reentrant=not isinstance(v, lock_types[1])))
    elif isinstance(v, threading.Event):
      attrs[k] = sc.add(M.MEvent("%s.%s" % (name, k), 1 if v.is_set() else 0))
      sc.auto_bound.append((name, k, "%s.%s" % (name, k), "Event"))      # the replay harness proxies it (R.auto_proxy)
    elif type(v) is dict and not v:
      # an empty dict the object keeps besides its modelled state (an index, a cache): a small dict model, proxied in the replay
      attrs[k] = sc.add(M.MDict("%s.%s" % (name, k), 3))
      sc.auto_bound.append((name, k, "%s.%s" % (name, k), "dict"))
    elif v is None or isinstance(v, (bool, int, str)):
      attrs[k] = v
  return attrs


def singleton(nthreads=2):
  """N threads make the first request of a singleton at once (C30): the real SingletonDecorator.__call__"""
  import miros.singleton as sg
  sc = Scenario("singleton")
  alloc = sc.add(M.MAlloc("klass", first=1))
  inst = sc.add(M.MAttr("instance", NONE))

  class Probe:
    pass
  real = sg.SingletonDecorator(Probe)
  klass = SI(lambda comp, a, k: comp.op(alloc, "new", []), "klass")
  special = {"klass": klass, "instance": inst}
  # an attribute that starts as None may come to hold a lock made at run time (a lock created on demand): a shared attribute whose values
  # are references into a small pool of lock models
  import threading
  lazy = [k for k, v in vars(real).items() if v is None and k not in special]
  if lazy:
    pool = [sc.add(M.MRLock("lazy_lock%d" % i)) for i in range(nthreads)]
    lock_alloc = sc.add(M.MAlloc("lock_alloc", first=sc.obj_index(pool[0])))
    for k in lazy:
      a = sc.add(M.MAttr("decorator." + k, NONE))
      a.typ = ("obj", "RLock")
      special[k] = a
    make_lock = SI(lambda comp, a, k: comp.op(lock_alloc, "new", [], typ=("obj", "RLock")), "RLock")
    sc.by_identity.append((threading.RLock, make_lock))
    sc.by_identity.append((threading.Lock, make_lock))
  attrs = bind_instance(sc, real, "decorator", special)
  dec = PyObj(sg.SingletonDecorator, attrs, "decorator")
  src = """
  def caller(dec):
    r = dec()
    record(r)
  """
  for t in range(nthreads):
    sc.ghost["res.%d" % t] = 0
    c = Compiler(sc, t, "caller%d" % t)

    def record(comp, args, kwargs, _t=t):
      x = comp.intx(args[0])

      def fn(B, st, tid, _x=x):
        return {"res.%d" % _t: ir.evint(_x, st, B)}
      comp.ghost(fn, "record", uses=[x])
      return SK(NONE, None)
    c.call_function(SF(node=driver(src, "caller"), closure={"record": SI(record)}, qualname="scenario.caller", globs={}), [SP(dec)], {})
    sc.programs.append(c.finish())
  sc.info = {"nthreads": nthreads, "lock_attrs": [k for k, v in attrs.items() if isinstance(v, M.MRLock)], "lazy_attrs": lazy}
  return sc


# ---- thread-safe attributes (C27) ----------------------------------------------------------------------------------
TSA_CONST = {0: 1, 1: 2, 2: 4}          # per thread: the constant its statement uses
TSA_ASSIGN = {0: 9, 1: 10, 2: 12}


def tsa_statement_text(kind, t):
  """the source line of the statement thread t executes, taken from the real functions the replay runs"""
  import inspect
  from vf.e2 import tsa_statements as S
  fn = getattr(S, "%s_%d" % (kind, t))
  return inspect.getsource(fn).splitlines()[1] + "\n"


def tsa(kinds=("aug", "assign"), same_names=False):
  """threads executing one statement each on the same thread-safe attribute of the same instance (C27);
  kinds[t] in {'read', 'assign', 'aug'}: the descriptor calls CPython makes for `v = o.x`, `o.x = c`, `o.x += c`"""
  import ast as _ast
  import inspect
  import threading
  import miros.thread_safe_attributes as tsmod
  sc = Scenario("tsa")
  real = tsmod.ThreadSafeAttribute(initial_value=0, name="x")
  # attributes assigned inside __get__/__set__ are shared mutable state of the descriptor
  written = set()
  for fname in ("__get__", "__set__"):
    tree = _ast.parse(textwrap.dedent(inspect.getsource(getattr(tsmod.ThreadSafeAttribute, fname))))
    for n in _ast.walk(tree):
      if isinstance(n, (_ast.Assign, _ast.AugAssign)):
        for tg in (n.targets if isinstance(n, _ast.Assign) else [n.target]):
          if isinstance(tg, _ast.Attribute) and isinstance(tg.value, _ast.Name) and tg.value.id == "self":
            written.add(tg.attr)
  special = {}
  for a in sorted(written):
    cur = getattr(real, a, None)
    init = NONE if cur is None else (1 if cur is True else (0 if cur is False else cur))
    if not isinstance(init, int):
      raise TranslationError("descriptor attribute %s has an initial value that is not modelled: %r" % (a, cur))
    special[a] = sc.add(M.MAttr("desc." + a, init))
  attrs = bind_instance(sc, real, "desc", special)
  for a in written:
    attrs.setdefault(a, special[a])
  desc = PyObj(tsmod.ThreadSafeAttribute, attrs, "descriptor")
  vals = sc.add(M.MDict("vals", 1))
  sc.elem_typ["vals"] = "str"
  inst = PyObj(object, {"__dict__": PyObj(dict, {}, "instance.__dict__", model=vals)}, "instance")
  texts = {}

  def frame_line(comp):
    return texts[comp.tid]
  sc.modules["inspect"] = SNs({
    "currentframe": SI(lambda comp, a, k: SNs({"f_back": SNs({}, "frame")}, "frame")),
    "getframeinfo": SI(lambda comp, a, k: ST([])),
  }, "inspect")
  sc.class_intrinsics.append((tsmod.FrameData, lambda comp, a, k: SNs({"lines": ST([SK(sc.strings.code(frame_line(comp)), frame_line(comp))])}, "FrameData")))
  # threads are told apart by their ident; their names are distinct unless the scenario gives every thread the same name (legal: miros
  # names an active object's thread after the chart)
  def current_thread(comp, a, k):
    nm = "worker" if same_names else "worker-%d" % comp.tid
    return SNs({"name": SK(sc.strings.code(nm), nm), "ident": SK(comp.tid + 1, comp.tid + 1)}, "thread")
  sc.modules["threading"] = SNs({"get_ident": SI(lambda comp, a, k: SK(comp.tid + 1, comp.tid + 1)),
                                 "current_thread": SI(current_thread)}, "threading")
  sc.by_identity.append((threading.current_thread, SI(current_thread)))
  sc.modules["re"] = SNs({}, "re")
  sc.by_identity.append((threading.get_ident, SI(lambda comp, a, k: SK(comp.tid + 1, comp.tid + 1))))

  def real_predicate(name):
    def f(comp, self_val, args, kwargs):
      line = args[0]
      if not isinstance(line, SK) or not isinstance(line.py, str):
        raise TranslationError("%s on a line that is not static" % name)
      return comp.lift(bool(getattr(real, name)(line.py)))
    return f
  sc.method_intrinsics[("ThreadSafeAttribute", "is_not_atomic")] = real_predicate("is_not_atomic")
  sc.method_intrinsics[("ThreadSafeAttribute", "request_for_lock")] = real_predicate("request_for_lock")
  src = """
  def t_read(desc, inst):
    v = desc.__get__(inst, None)
    record(v)

  def t_assign(desc, inst, c):
    desc.__set__(inst, c)

  def t_aug(desc, inst, c):
    v = desc.__get__(inst, None)
    desc.__set__(inst, v + c)
  """
  for t, kind in enumerate(kinds):
    texts[t] = tsa_statement_text(kind, t)
    sc.ghost["read.%d" % t] = 0
    c = Compiler(sc, t, "%s%d" % (kind, t))

    def record(comp, args, kwargs, _t=t):
      x = comp.intx(args[0])
      comp.ghost(lambda B, st, tid, _x=x: {"read.%d" % _t: ir.evint(_x, st, B)}, "record", uses=[x])
      return SK(NONE, None)
    args = [SP(desc), SP(inst)]
    if kind == "assign":
      args.append(SK(TSA_ASSIGN[t], TSA_ASSIGN[t]))
    elif kind == "aug":
      args.append(SK(TSA_CONST[t], TSA_CONST[t]))
    c.call_function(SF(node=driver(src, "t_" + kind), closure={"record": SI(record)}, qualname="scenario.t_" + kind, globs={}), args, {})
    sc.programs.append(c.finish())
  sc.info = {"kinds": list(kinds), "same_names": bool(same_names), "lock_attrs": [k for k, v in attrs.items() if isinstance(v, M.MRLock)],
             "shared_attrs": sorted(written), "texts": texts, "lock_names": ["desc." + k for k, v in attrs.items() if isinstance(v, M.MRLock)]}
  return sc


# ---- stop / cancel against the consumer and a timer thread (C12, C11 'for good', C31) ------------------------------------
class WatchDeque(M.MDeque):
  """pending-event deque that records, in ghost state, insertions made by the timer thread after the watched call
  (stop / cancel) has returned: fresh = the timer's last look at its run flag was after the return as well (nothing can excuse
  that post), stale = it looked before the return and posts after (the check-then-post window)"""

  def __init__(self, name, maxlen, timer_tids, items=(), watched=None):
    super().__init__(name, maxlen, items)
    self.timer_tids = timer_tids
    self.watched = timer_tids if watched is None else watched     # timers of the sources the watched call has to stop

  def apply(self, B, st, op, args, tid):
    outs = super().apply(B, st, op, args, tid)
    if op in ("append", "appendleft") and tid in self.timer_tids:
      ret = B.eq(st["g.returned"], B.const(1)) if tid in self.watched else B.false()
      fresh = B.eq(st["g.checked_after.%d" % tid], B.const(1))
      res = []
      for (c, kind, r, up) in outs:
        up = dict(up)
        up["g.late_fresh"] = B.ite(B.and_(ret, fresh), B.const(1), st["g.late_fresh"])
        up["g.late_stale"] = B.ite(B.and_(ret, B.not_(fresh)), B.const(1), st["g.late_stale"])
        up["g.posts.%d" % tid] = B.add(st["g.posts.%d" % tid], B.const(1))
        res.append((c, kind, r, up))
      return res
    return outs


class WatchEvent(M.MEvent):
  """run flag of a timed source: every is_set by its timer thread records whether the watched call had returned by then"""

  def __init__(self, name, flag, timer_tid):
    super().__init__(name, flag)
    self.timer_tid = timer_tid

  def apply(self, B, st, op, args, tid):
    outs = super().apply(B, st, op, args, tid)
    if op == "is_set" and tid == self.timer_tid:
      return [(c, k, r, dict(up, **{"g.checked_after.%d" % tid: st["g.returned"]})) for (c, k, r, up) in outs]
    return outs


def nested_def(outer, name):
  """AST of a function defined inside `outer` (re-read from the source)"""
  import inspect
  tree = ast.parse(textwrap.dedent(inspect.getsource(outer)))
  for n in ast.walk(tree):
    if isinstance(n, ast.FunctionDef) and n.name == name and n is not tree.body[0]:
      return n, outer.__code__.co_firstlineno - 1
  raise TranslationError("no nested function %s in %s" % (name, outer.__qualname__))


def stopping(action="stop", handler_stop=False, pending=0, sources=1, times=2, deferred=True, capacity=3, other_source=False, poster=False):
  """action in {'stop', 'cancel_event', 'cancel_events'} performed by thread 0 against the consumer (run_event) and `sources`
  timer threads (post_event_thread_runner) of one active object.
  handler_stop: stop() is called from the handler of the first pending event instead (thread 0 then only posts nothing)."""
  import miros.activeobject as ao
  sc = Scenario("stopping")
  prototypes(sc)
  sig = signals_ns(sc)
  EV = RecordClass("event", ["signal", "signal_name"])
  A = sc.strings.code("A")
  Bn = sc.strings.code("B")
  stop_sig = sig.attrs["STOP_ACTIVE_OBJECT_SIGNAL"]
  ev_timer = [EV.new(signal=SK(11, 11), signal_name=SK(A, "A")), EV.new(signal=SK(12, 12), signal_name=SK(Bn, "B"))]
  pend = [EV.new(signal=SK(13, 13), signal_name=SK(sc.strings.code("P%d" % i), "P%d" % i)) for i in range(pending)]
  n_threads_before_timers = 2
  timer_tids = [n_threads_before_timers + i for i in range(sources)]
  Q = sc.add(M.MQueue("Q", capacity, count=len(pend)))
  watched = [timer_tids[i] for i in range(sources) if action == "stop" or i == 0 or (action == "cancel_events" and not other_source)]
  D = sc.add(WatchDeque("D", capacity, timer_tids, items=[e.rid for e in pend], watched=watched))
  sc.elem_typ["D"] = ("rec", EV)
  task_event = sc.add(M.MEvent("task_event", 1))
  fabric_event = sc.add(M.MEvent("fabric_event", 1))
  other_task_event = sc.add(M.MEvent("other.task_event", 1))
  thread = sc.add(M.MThread("ao.thread", prog=1, state=1))
  sc.ghost.update({"g.returned": 0, "g.late_fresh": 0, "g.late_stale": 0, "g.late_dispatch": 0, "g.dispatched": 0, "g.handler_stopped": 0})
  # tracked sources
  PE = RecordClass("PostedEvent", ["signal_name", "task_run_event", "uuid"])
  SPEC = RecordClass("PostedEventThreadSpec", ["event", "queue_type", "total_times", "deferred", "period", "task_run_event"])
  flags, recs, specs = [], [], []
  for i in range(sources):
    tt = timer_tids[i]
    sc.ghost["g.checked_after.%d" % tt] = 0
    sc.ghost["g.posts.%d" % tt] = 0
    f = sc.add(WatchEvent("source%d.run" % i, 1, tt))
    flags.append(f)
    name = SK(A, "A") if (i == 0 or not other_source) else SK(Bn, "B")
    recs.append(PE.new(signal_name=name, task_run_event=SO(f), uuid=SK(20 + i, 20 + i)))
    specs.append(SPEC.new(event=ev_timer[0 if (i == 0 or not other_source) else 1], queue_type=SK(sc.strings.code("fifo"), "fifo"), total_times=SK(times, times),
                          deferred=SK(1 if deferred else 0, deferred), period=SK(1, 1), task_run_event=SO(f)))
  T = sc.add(M.MDeque("tracked", capacity, items=[r.rid for r in recs]))
  sc.elem_typ["tracked"] = ("rec", PE)
  sleep = sc.add(M.MSleep("time"))
  sc.modules["time"] = SNs({"sleep": SI(lambda comp, a, k: comp.op(sleep, "sleep", [], want=0))}, "time")
  sc.globals["time"] = sc.modules["time"]
  ld = PyObj(ao.LockingDeque, {"deque": D, "locking_queue": Q}, "locking_deque")
  obj = PyObj(ao.ActiveObject, {"queue": ld, "locking_deque": ld, "instrumented": False, "live_spy": False, "live_trace": False,
                                "activeobject_task_event": task_event, "fabric_task_event": fabric_event, "thread": thread,
                                "posted_events_queue": T}, "active_object")
  sc.class_intrinsics.append((ao.HsmEvent, lambda comp, a, k: EV.intern(signal=k["signal"], signal_name=SK(sc.strings.code("STOP"), "STOP"))))

  def set_ghost(name, value):
    def intr(comp, args, kwargs):
      comp.ghost(lambda B, st, tid: {name: B.const(value)}, name)
      return SK(NONE, None)
    return SI(intr)

  def ghost_dispatch(comp, args, kwargs):
    def fn(B, st, tid):
      late = B.or_(B.eq(st["g.returned"], B.const(1)), B.eq(st["g.handler_stopped"], B.const(1)))
      return {"g.late_dispatch": B.ite(late, B.const(1), st["g.late_dispatch"]), "g.dispatched": B.add(st["g.dispatched"], B.const(1))}
    comp.ghost(fn, "dispatch")
    return SK(NONE, None)
  stub_src = """
  def dispatch_stub(self, e):
    ghost_dispatch(e)
    if HANDLER_STOP:
      if e is FIRST:
        self.stop()
        mark_handler_stopped()
  """

  def dispatch_intrinsic(comp, self_val, args, kwargs):
    e = kwargs.get("e", args[0] if args else None)
    clo = {"ghost_dispatch": SI(ghost_dispatch), "HANDLER_STOP": SK(1 if handler_stop else 0, handler_stop),
           "FIRST": pend[0] if pend else SK(NONE, None), "mark_handler_stopped": set_ghost("g.handler_stopped", 1)}
    return comp.call_function(SF(node=driver(stub_src, "dispatch_stub"), closure=clo, qualname="scenario.dispatch_stub", globs={}), [self_val, e], {})
  sc.method_intrinsics[("HsmWithQueues", "dispatch")] = dispatch_intrinsic
  main_src = """
  def do_stop(ao):
    ao.stop()
    returned()

  def do_cancel_event(ao, uuid):
    ao.cancel_event(uuid)
    returned()

  def do_cancel_events(ao, e):
    ao.cancel_events(e)
    returned()

  def do_nothing(ao):
    pass

  def consumer_main(ao, task_event, fabric_event, queue, thread):
    ao.run_event(task_event, fabric_event, queue)
    thread_finished()
  """
  clo = {"returned": set_ghost("g.returned", 1)}
  c = Compiler(sc, 0, "caller")
  if handler_stop:
    c.call_function(SF(node=driver(main_src, "do_nothing"), closure=clo, qualname="scenario.do_nothing", globs={}), [SP(obj)], {})
  elif action == "stop":
    c.call_function(SF(node=driver(main_src, "do_stop"), closure=clo, qualname="scenario.do_stop", globs={}), [SP(obj)], {})
  elif action == "cancel_event":
    c.call_function(SF(node=driver(main_src, "do_cancel_event"), closure=clo, qualname="scenario.do_cancel_event", globs={}), [SP(obj), SK(20, 20)], {})
  else:
    c.call_function(SF(node=driver(main_src, "do_cancel_events"), closure=clo, qualname="scenario.do_cancel_events", globs={}), [SP(obj), ev_timer[0]], {})
  sc.programs.append(c.finish())
  c = Compiler(sc, 1, "consumer")

  def thread_finished(comp, args, kwargs):
    comp._emit(ir.Op(target=thread, name="finish", args=[], exc={}, dst=None))
    return SK(NONE, None)
  c.call_function(SF(node=driver(main_src, "consumer_main"), closure={"thread_finished": SI(thread_finished)}, qualname="scenario.consumer_main", globs={}),
                  [SP(obj), SO(task_event), SO(fabric_event), SP(ld), SO(thread)], {})
  sc.programs.append(c.finish())
  outer = ao.ActiveObject._ActiveObject__post_event
  node, line0 = nested_def(outer, "post_event_thread_runner")
  for i in range(sources):
    c = Compiler(sc, timer_tids[i], "timer%d" % i)
    sf = SF(node=node, closure={"self": SP(obj)}, qualname="miros.activeobject.ActiveObject.__post_event.<locals>.post_event_thread_runner",
            globs=outer.__globals__, defcls=ao.ActiveObject)
    c.call_function(sf, [specs[i], SK(1 if deferred else 0, deferred), SK(0, 0)], {})
    sc.programs.append(c.finish())
  sc.info = {"action": action, "handler_stop": handler_stop, "timer_tids": timer_tids, "sources": sources, "pending": pending, "capacity": capacity,
             "times": times, "deferred": deferred, "other_source": other_source, "flags": [f.name for f in flags]}
  return sc


# ---- signal registry under threads (C25) -----------------------------------------------------------------------------------
def registry(ops=(("append", "N1"), ("append", "N2"))):
  """each thread performs one first use on the shared signal registry: ('append', name) = SignalSource.append(name) then a lookup of
  its number; ('event', name) = Event(signal=name); ('event_number', n) = Event(signal=n) (the reverse-lookup loop)"""
  import miros.event as ev
  sc = Scenario("registry")
  names = {"ENTRY_SIGNAL": 1, "EXIT_SIGNAL": 2}
  items = [(sc.strings.code(k), v) for k, v in names.items()]
  reg = sc.add(M.MDict("signals", 4, items=items))
  sc.elem_typ["signals"] = "str"
  real = ev.SignalSource()
  attrs = bind_instance(sc, real, "signals", {"highest_inner_signal": 2})
  robj = PyObj(ev.SignalSource, attrs, "signals", model=reg)
  sc.by_identity.append((ev.signals, SP(robj)))
  sc.globals["signals"] = SP(robj)
  sc.ignored_attr_stores |= {"signal", "signal_name", "payload"}
  src = """
  def do_append(reg, name):
    reg.append(name)
    r = reg[name]
    record(r)

  def do_event(make, arg):
    make(arg)
  """
  for t, (kind, arg) in enumerate(ops):
    sc.ghost["res.%d" % t] = 0
    c = Compiler(sc, t, "%s%d" % (kind, t))

    def record(comp, args, kwargs, _t=t):
      x = comp.intx(args[0])
      comp.ghost(lambda B, st, tid, _x=x: {"res.%d" % _t: ir.evint(_x, st, B)}, "record", uses=[x])
      return SK(NONE, None)
    if kind == "append":
      c.call_function(SF(node=driver(src, "do_append"), closure={"record": SI(record)}, qualname="scenario.do_append", globs={}),
                      [SP(robj), SK(sc.strings.code(arg), arg)], {})
    elif kind == "name_for":
      c.call_function(SF(fn=ev.SignalSource.name_for_signal, self_val=SP(robj), defcls=ev.SignalSource), [SK(arg, arg)], {})
    elif kind == "attr":
      # first use by attribute access: signals.<name> -> SignalSource.__getattr__(name)
      asrc = """
  def do_attr(reg, name):
    r = GETATTR(name)
    record(r)
  """
      getattr_sf = SF(fn=ev.SignalSource.__dict__["__getattr__"], self_val=SP(robj), defcls=ev.SignalSource)
      c.call_function(SF(node=driver(asrc, "do_attr"), closure={"record": SI(record), "GETATTR": getattr_sf}, qualname="scenario.do_attr", globs={}),
                      [SP(robj), SK(sc.strings.code(arg), arg)], {})
    else:
      eobj = PyObj(ev.Event, {}, "event%d" % t)
      init = ev.Event.__dict__["__init__"]
      val = SK(sc.strings.code(arg), arg) if isinstance(arg, str) else SK(arg, arg)
      c.call_function(SF(fn=init, self_val=SP(eobj), defcls=ev.Event), [val], {})
    sc.programs.append(c.finish())
  sc.info = {"ops": [list(o) for o in ops], "lock_attrs": [k for k, v in attrs.items() if isinstance(v, M.MRLock)], "initial_size": len(items),
             "codes": dict(sc.strings.codes)}
  return sc


# ---- concurrent start() of the fabric (C13) -----------------------------------------------------------------------------------
def fabric_start(scripts=(("start",), ("start",)), pool=4, prestarted=False, queued=(0, 0)):
  """each caller thread runs a script of calls on one ActiveFabricSource: 'start', 'stop', 'is_alive'.
  Threads created by start() come from a pool of `pool` modelled threads whose body is the delivery loop waiting on its queue."""
  import miros.activeobject as ao
  sc = Scenario("fabric_start")
  prototypes(sc)
  signals_ns(sc)
  run_event = sc.add(M.MEvent("fabric_event", 0))
  # queued: publications (for signals nobody subscribed to) already waiting in the fifo / lifo queue when the callers begin
  qf = sc.add(M.MQueue("fifo_queue", 4, count=queued[0]))
  ql = sc.add(M.MQueue("lifo_queue", 4, count=queued[1]))
  ncallers = len(scripts)
  threads = []
  for j in range(pool):
    t = sc.add(M.MThread("pool%d" % j, prog=ncallers + j, state=0))
    threads.append(t)
    sc.ghost["g.kind.%d" % j] = 0          # 1 fifo, 2 lifo once created
  alloc = sc.add(M.MAlloc("thread_alloc", first=1))
  fifo_attr = sc.add(M.MAttr("fabric.fifo_thread", NONE))
  lifo_attr = sc.add(M.MAttr("fabric.lifo_thread", NONE))
  fifo_attr.typ = lifo_attr.typ = ("obj", "Thread")
  saved = (ao.FiberThreadEvent.instance,)
  real = ao.ActiveFabricSource()
  ao.FiberThreadEvent.instance = saved[0]
  attrs = bind_instance(sc, real, "fabric", {"fabric_task_event": run_event, "fifo_fabric_queue": qf, "lifo_fabric_queue": ql,
                                             "fifo_subscriptions": SK(NONE, None), "lifo_subscriptions": SK(NONE, None),
                                             "fifo_thread": fifo_attr, "lifo_thread": lifo_attr})
  fabric = PyObj(ao.ActiveFabricSource, attrs, "fabric")
  sc.ignored_attr_stores |= {"name", "daemon", "fabric_task_event"}
  sc.by_identity.append((ao.FiberThreadEvent, SI(lambda comp, a, k: SO(run_event), "FiberThreadEvent")))

  def new_thread(comp, args, kwargs):
    target = kwargs.get("target")
    kind = 1 if "fifo" in (getattr(target, "qualname", None) or getattr(getattr(target, "fn", None), "__name__", "") or "") else 2
    idx = comp.op(alloc, "new", [], typ=("obj", "Thread"))

    def fn(B, st, tid, _x=idx.x, _k=kind):
      i = ir.evint(_x, st, B)
      return {"g.kind.%d" % j: B.ite(B.eq(i, B.const(j + 1)), B.const(_k), st["g.kind.%d" % j]) for j in range(pool)}
    comp.ghost(fn, "thread-created", uses=[idx.x])
    return idx
  sc.class_intrinsics.append((ao.Thread, new_thread))
  stop_ev = RecordClass("event", ["signal"]).new(signal=SK(7, 7))
  sc.class_intrinsics.append((ao.HsmEvent, lambda comp, a, k: stop_ev))
  sc.class_intrinsics.append((ao.FabricEvent, lambda comp, a, k: SK(1, 1)))
  main_src = """
  def caller(fabric, script):
    for_each_call()

  def runner(ev, qf, ql, kind):
    if kind == 1:
      while ev.is_set():
        qf.get()
        qf.task_done()
    else:
      while ev.is_set():
        ql.get()
        ql.task_done()
    finished()
  """
  for t, script in enumerate(scripts):
    sc.ghost["g.alive.%d" % t] = NONE
    c = Compiler(sc, t, "caller%d" % t)
    body = "def caller(fabric):\n"
    for k, call in enumerate(script):
      if call == "is_alive":
        body += "  record(fabric.is_alive())\n"
      else:
        body += "  fabric.%s()\n" % call

    def record(comp, args, kwargs, _t=t):
      x = comp.intx(args[0])
      comp.ghost(lambda B, st, tid, _x=x: {"g.alive.%d" % _t: ir.evint(_x, st, B)}, "record", uses=[x])
      return SK(NONE, None)
    c.call_function(SF(node=driver(body, "caller"), closure={"record": SI(record)}, qualname="scenario.caller", globs={}), [SP(fabric)], {})
    sc.programs.append(c.finish())
  for j in range(pool):
    c = Compiler(sc, ncallers + j, "delivery%d" % j)

    def finished(comp, args, kwargs, _m=threads[j]):
      comp._emit(ir.Op(target=_m, name="finish", args=[], exc={}, dst=None))
      return SK(NONE, None)
    # which queue a pool thread waits on depends on the kind it was created with: both loops have the same shape, a thread of
    # unknown kind waits on its own private queue stand-in (the scenario never publishes)
    c.call_function(SF(node=driver(main_src, "runner"), closure={"finished": SI(finished)}, qualname="scenario.runner", globs={}),
                    [SO(run_event), SO(qf), SO(ql), SE(V("g.kind.%d" % j))], {})
    sc.programs.append(c.finish())
    sc.spawned[ncallers + j] = threads[j]
  sc.info = {"ncallers": ncallers, "pool": pool, "scripts": [list(x) for x in scripts], "queued": list(queued),
             "lock_attrs": [k for k, v in attrs.items() if isinstance(v, M.MRLock)]}
  return sc


# ---- a timed post at capacity (C31 under every interleaving of the caller with the rejected source's thread) ----------------------
def rejecting(deferred=True, times=1, kind="fifo", capacity=2, pending=0, existing=None, canceller=None):
  """thread 0 makes a timed post while the object already tracks `capacity` sources: the real post_fifo/post_lifo -> __post_event,
  translated whole (capacity test, run flag, spec, Thread(...), start, tracking record).  A thread the code creates is compiled on the
  spot from its target (the real post_event_thread_runner closure) and can run from the moment start() was called on it."""
  import miros.activeobject as ao
  sc = Scenario("rejecting")
  prototypes(sc)
  sig = signals_ns(sc)
  EV = RecordClass("event", ["signal", "signal_name"])
  ev_new = EV.new(signal=SK(11, 11), signal_name=SK(sc.strings.code("W_REJECTED"), "W_REJECTED"))
  pend = [EV.new(signal=SK(13, 13), signal_name=SK(sc.strings.code("P%d" % i), "P%d" % i)) for i in range(pending)]
  sc.ghost.update({"g.rejected": 0, "g.accepted": 0, "g.posts_by_new": 0, "g.dispatched": 0})

  class NewSourceDeque(M.MDeque):
    """pending-event deque: counts, in ghost state, the insertions made by a thread the post itself created"""

    def apply(self, B, st, op, args, tid):
      outs = super().apply(B, st, op, args, tid)
      if op in ("append", "appendleft") and tid >= 2:
        return [(c, k, r, dict(up, **{"g.posts_by_new": B.add(st["g.posts_by_new"], B.const(1))})) for (c, k, r, up) in outs]
      return outs
  Q = sc.add(M.MQueue("Q", 4, count=len(pend)))
  D = sc.add(NewSourceDeque("D", 4, items=[e.rid for e in pend]))
  sc.elem_typ["D"] = ("rec", EV)
  task_event = sc.add(M.MEvent("task_event", 1))
  fabric_event = sc.add(M.MEvent("fabric_event", 1))
  PE = RecordClass("PostedEvent", ["signal_name", "task_run_event", "uuid"])
  SPEC = RecordClass("PostedEventThreadSpec", ["event", "queue_type", "total_times", "deferred", "period", "task_run_event"])
  old_flags = []
  recs = []
  existing = capacity if existing is None else existing       # sources already tracked (default: the list is full)
  for i in range(existing):
    f = sc.add(M.MEvent("old%d.run" % i, 1))
    old_flags.append(f)
    recs.append(PE.new(signal_name=SK(sc.strings.code("W_OLD%d" % i), "W_OLD%d" % i), task_run_event=SO(f), uuid=SK(20 + i, 20 + i)))
  T = sc.add(M.MDeque("tracked", capacity, items=[r.rid for r in recs]))
  sc.elem_typ["tracked"] = ("rec", PE)
  sleep = sc.add(M.MSleep("time"))
  sc.modules["time"] = SNs({"sleep": SI(lambda comp, a, k: comp.op(sleep, "sleep", [], want=0))}, "time")
  sc.globals["time"] = sc.modules["time"]
  sc.globals["pp"] = SI(lambda comp, a, k: SK(NONE, None), "pp")
  sc.modules["uuid"] = SNs({"uuid4": SI(lambda comp, a, k: SK(29, 29))}, "uuid")
  sc.globals["uuid"] = sc.modules["uuid"]
  new_flag = sc.add(M.MEvent("new.run", 0))
  sc.by_identity.append((ao.ThreadEvent, SI(lambda comp, a, k: SO(new_flag), "ThreadEvent")))
  new_thread_model = sc.add(M.MThread("new.thread", prog=2, state=0))
  sc.ignored_attr_stores |= {"name", "daemon"}
  ld = PyObj(ao.LockingDeque, {"deque": D, "locking_queue": Q}, "locking_deque")
  obj = PyObj(ao.ActiveObject, {"queue": ld, "locking_deque": ld, "instrumented": False, "live_spy": False, "live_trace": False,
                                "activeobject_task_event": task_event, "fabric_task_event": fabric_event, "posted_events_queue": T,
                                "__class__": SNs({"QUEUE_SIZE": capacity}, "ActiveObject class"),
                                "PostedEventThreadSpec": SI(lambda comp, a, k: SPEC.intern(**k), "PostedEventThreadSpec"),
                                "PostedEvent": SI(lambda comp, a, k: PE.intern(signal_name=a[0], task_run_event=a[1], uuid=SK(29, 29)), "PostedEvent")},
               "active_object")
  sc.class_intrinsics.append((ao.HsmEvent, lambda comp, a, k: EV.intern(signal=k["signal"], signal_name=SK(sc.strings.code("STOP"), "STOP"))))
  spawned_programs = []

  def new_thread(comp, args, kwargs):
    target = kwargs.get("target")
    targs = kwargs.get("args")
    if spawned_programs:
      raise TranslationError("more than one Thread(...) on the translated path")
    c2 = Compiler(sc, 2, "new-source-thread")
    c2.call_function(target, list(targs.items), {})
    c2._emit(ir.Op(target=new_thread_model, name="finish", args=[], exc={}, dst=None))
    spawned_programs.append(c2.finish())
    return SO(new_thread_model)
  sc.class_intrinsics.append((ao.Thread, new_thread))

  def ghost_dispatch(comp, args, kwargs):
    comp.ghost(lambda B, st, tid: {"g.dispatched": B.add(st["g.dispatched"], B.const(1))}, "dispatch")
    return SK(NONE, None)
  sc.method_intrinsics[("HsmWithQueues", "dispatch")] = lambda comp, self_val, args, kwargs: ghost_dispatch(comp, args, kwargs)

  def mark(name):
    def intr(comp, args, kwargs):
      comp.ghost(lambda B, st, tid: {name: B.const(1)}, name)
      return SK(NONE, None)
    return SI(intr)
  src = """
  def caller(ao, e, period, times, deferred):
    try:
      POST(e, period=period, times=times, deferred=deferred)
      accepted()
    except ActiveObjectOutOfPostedEventResources:
      rejected()

  def consumer_main(ao, task_event, fabric_event, queue):
    ao.run_event(task_event, fabric_event, queue)
  """
  c = Compiler(sc, 0, "caller")
  post = c.get_attr(SP(obj), "post_lifo" if kind == "lifo" else "post_fifo")
  if canceller == "signal":
    # the caller keeps the id its post returned, waits until the other thread's cancel_events(signal) has returned, and cancels by id
    handoff = sc.add(M.MEvent("handoff", 0))
    sc.ghost["g.cancel_by_id_returned"] = 0
    src += """
  def caller_then_cancel(ao, e, period, times, deferred, handoff):
    uid = POST(e, period=period, times=times, deferred=deferred)
    accepted()
    handoff.wait()
    ao.cancel_event(uid)
    cancelled_by_id()
  """
    c.call_function(SF(node=driver(src, "caller_then_cancel"), closure={"POST": post, "accepted": mark("g.accepted"), "cancelled_by_id": mark("g.cancel_by_id_returned")},
                       qualname="scenario.caller_then_cancel", globs={}),
                    [SP(obj), ev_new, SK(1, 1.0), SK(times, times), SK(1 if deferred else 0, deferred), SO(handoff)], {})
  else:
    c.call_function(SF(node=driver(src, "caller"), closure={"POST": post, "accepted": mark("g.accepted"), "rejected": mark("g.rejected")},
                       qualname="scenario.caller", globs={}),
                    [SP(obj), ev_new, SK(1, 1.0), SK(times, times), SK(1 if deferred else 0, deferred)], {})
  sc.programs.append(c.finish())
  c = Compiler(sc, 1, "consumer")
  c.call_function(SF(node=driver(src, "consumer_main"), closure={}, qualname="scenario.consumer_main", globs={}),
                  [SP(obj), SO(task_event), SO(fabric_event), SP(ld)], {})
  sc.programs.append(c.finish())
  if spawned_programs:
    sc.programs.append(spawned_programs[0])
    sc.spawned[2] = new_thread_model
  if canceller:
    # a third party cancels at the same time: 'old' = the id of the first tracked source, 'absent' = an id nobody has
    if not spawned_programs:
      raise TranslationError("the canceller variant expects the translated post to contain a Thread(...) site")
    c = Compiler(sc, 3, "canceller")
    csrc = """
  def do_cancel(ao, uuid):
    ao.cancel_event(uuid)
    cancelled()

  def do_cancel_signal(ao, e, handoff):
    ao.cancel_events(e)
    cancelled()
    handoff.set()
  """
    sc.ghost["g.cancel_returned"] = 0
    if canceller == "signal":
      c.call_function(SF(node=driver(csrc, "do_cancel_signal"), closure={"cancelled": mark("g.cancel_returned")}, qualname="scenario.do_cancel_signal", globs={}),
                      [SP(obj), ev_new, SO(handoff)], {})
    else:
      c.call_function(SF(node=driver(csrc, "do_cancel"), closure={"cancelled": mark("g.cancel_returned")}, qualname="scenario.do_cancel", globs={}),
                      [SP(obj), SK(20, 20) if canceller == "old" else SK(27, 27)], {})
    sc.programs.append(c.finish())
  sc.info = {"canceller": canceller, "capacity": capacity, "existing": existing, "deferred": deferred, "times": times, "kind": kind, "pending": pending, "old_flags": [f.name for f in old_flags],
             "thread_created_on_translated_path": bool(spawned_programs)}
  return sc


# ---- fabric: subscribe / publish against the delivery threads (C06, C08 under every interleaving) --------------------------------------
FABRIC_SCRIPTS = {
  # (call, args...): sub(queue, signal, kind) / pub(event index)
  "late-subscriber": [("sub", 0, "A", "fifo"), ("pub", 0), ("sub", 1, "A", "fifo"), ("pub", 1), ("pub", 2)],
  "resubscribe": [("sub", 0, "A", "fifo"), ("sub", 1, "A", "fifo"), ("sub", 0, "A", "fifo"), ("pub", 0), ("pub", 1)],
  "resubscribe-during-delivery": [("sub", 0, "A", "fifo"), ("sub", 1, "A", "fifo"), ("pub", 0), ("sub", 0, "A", "fifo")],
  "two-kinds": [("sub", 0, "A", "fifo"), ("sub", 1, "A", "lifo"), ("pub", 0), ("sub", 0, "A", "lifo"), ("pub", 1)],
  # both delivery threads at work on one publication each (whatever they share shows here at the smallest cost)
  "two-kinds-one-publication": [("sub", 0, "A", "fifo"), ("sub", 1, "A", "lifo"), ("pub", 0)],
  "priorities": [("sub", 0, "A", "fifo"), ("pub", 3), ("pub", 0), ("pub", 1)],
}
# events: index -> (signal, priority); event 2 has a signal nobody subscribes to; event 3 has a lower priority number (more urgent is smaller)
FABRIC_EVENTS = [("A", 5), ("A", 5), ("B", 5), ("A", 9)]


def fabric_delivery(script="late-subscriber", kinds=("fifo",)):
  """thread 0 runs a script of subscribe/publish calls on the real ActiveFabricSource; the delivery threads of `kinds` run the real
  thread_runner_fifo / thread_runner_lifo.  Subscriber queues are plain deques."""
  import miros.activeobject as ao
  sc = Scenario("fabric_delivery")
  prototypes(sc)
  signals_ns(sc)
  steps = FABRIC_SCRIPTS[script]
  EV = RecordClass("event", ["signal", "signal_name"])
  FE = RecordClass("FabricEvent", ["event", "priority"])
  sc.record_pyclass["event"] = ao.HsmEvent
  names = {"A": sc.strings.code("A"), "B": sc.strings.code("B")}
  events = [EV.new(signal=SK(11 + i, 11 + i), signal_name=SK(names[sg], sg)) for i, (sg, _p) in enumerate(FABRIC_EVENTS)]
  # an event used only to name a signal in subscribe()
  sub_ev = {sg: EV.new(signal=SK(20, 20), signal_name=SK(code, sg)) for sg, code in names.items()}
  fes = [FE.new(event=events[i], priority=SK(p, p)) for i, (_sg, p) in enumerate(FABRIC_EVENTS)]
  prio = {fe.rid: FABRIC_EVENTS[i][1] for i, fe in enumerate(fes)}
  run_event = sc.add(M.MEvent("fabric_event", 1))
  qf = sc.add(M.MItemQueue("fifo_queue", 4, prio))
  ql = sc.add(M.MItemQueue("lifo_queue", 4, prio))
  sc.elem_typ["fifo_queue"] = sc.elem_typ["lifo_queue"] = ("rec", FE)
  lists = sc.add(M.MLists("registries", 4, 3))
  sc.default_lists = lists
  sc.elem_typ["registries"] = ("obj", "deque")
  subs_f = sc.add(M.MDict("fifo_subscriptions", 2))
  subs_l = sc.add(M.MDict("lifo_subscriptions", 2))
  for d in (subs_f, subs_l):
    sc.elem_typ[d.name] = "str"
    sc.value_typ[d.name] = ("listref", lists)
  queues = [sc.add(M.MDeque("q%d" % i, 4)) for i in range(2)]
  for q in queues:
    sc.elem_typ[q.name] = ("rec", EV)
  fabric = PyObj(ao.ActiveFabricSource, {"fabric_task_event": run_event, "fifo_fabric_queue": qf, "lifo_fabric_queue": ql,
                                        "fifo_subscriptions": subs_f, "lifo_subscriptions": subs_l}, "fabric")
  counter = [0]

  def new_fe(comp, args, kwargs):
    ev_, pr = args[0], args[1]
    if not isinstance(ev_, SRec) or not isinstance(pr, SK):
      raise TranslationError("FabricEvent(...) with arguments that are not static in the scenario")
    return FE.intern(event=ev_, priority=pr)
  sc.class_intrinsics.append((ao.FabricEvent, new_fe))
  body = "def caller(fabric, q0, q1, A, B, e0, e1, e2, e3):\n"
  for stp in steps:
    if stp[0] == "sub":
      body += "  fabric.subscribe(q%d, %s, %r)\n" % (stp[1], stp[2], stp[3])
    else:
      body += "  fabric.publish(e%d, priority=%d)\n" % (stp[1], FABRIC_EVENTS[stp[1]][1])
  c = Compiler(sc, 0, "caller")
  c.call_function(SF(node=driver(body, "caller"), closure={}, qualname="scenario.caller", globs={}),
                  [SP(fabric), SO(queues[0]), SO(queues[1]), sub_ev["A"], sub_ev["B"]] + events, {})
  sc.programs.append(c.finish())
  tid = 1
  for kind in kinds:
    c = Compiler(sc, tid, "%s-delivery" % kind)
    fn = ao.ActiveFabricSource.thread_runner_fifo if kind == "fifo" else ao.ActiveFabricSource.thread_runner_lifo
    c.call_function(SF(fn=fn, self_val=SP(fabric), defcls=ao.ActiveFabricSource),
                    [SO(run_event), SO(qf if kind == "fifo" else ql), SO(subs_f if kind == "fifo" else subs_l)], {})
    sc.programs.append(c.finish())
    tid += 1
  sc.info = {"script": script, "steps": [list(x) for x in steps], "kinds": list(kinds), "events": [e.rid for e in events]}
  return sc


# ---- an active object subscribes and publishes against the delivery threads and its own thread (C07, C09 under every interleaving) -----
def ao_pubsub(kind="lifo", pending=1, subscribe_first=True, post_after=0):
  """thread 0: the real ActiveObject.subscribe(signal, queue_type=kind) on a started object (run-time path), a fifo post of `pending` events
  by the caller, then the real ActiveObject.publish(event); the delivery thread of `kind` runs the real thread_runner; the object's own
  thread runs run_event.  The object's queue is a LockingDeque (token queue + deque with a ghost reference for the intended order)."""
  import miros.activeobject as ao
  sc = Scenario("ao_pubsub")
  prototypes(sc)
  sig = signals_ns(sc)
  EV = RecordClass("event", ["signal", "signal_name"])
  FE = RecordClass("FabricEvent", ["event", "priority"])
  sc.record_pyclass["event"] = ao.HsmEvent
  NEWS = sc.strings.code("NEWS")
  news = EV.new(signal=SK(11, 11), signal_name=SK(NEWS, "NEWS"))
  sub_ev = EV.new(signal=SK(11, 11), signal_name=SK(NEWS, "NEWS"))
  # the last `post_after` of these are posted by the caller after its publish: they race with the delivery of the publication
  pend = [EV.new(signal=SK(12 + i, 12 + i), signal_name=SK(sc.strings.code("P%d" % i), "P%d" % i)) for i in range(pending + post_after)]
  kinds = {news.rid: "in.kind.news"}
  sc.ghost["in.kind.news"] = 1 if kind == "lifo" else 0
  for e in pend:
    kinds[e.rid] = "in.kind.p%d" % e.rid
    sc.ghost["in.kind.p%d" % e.rid] = 0
  for e in [news] + pend:
    sc.ghost["disp.e%d" % e.rid] = 0
  fe = FE.new(event=news, priority=SK(5, 5))
  Q = sc.add(M.MQueue("Q", 4))
  D = sc.add(RefDeque("D", 4, kinds))
  sc.elem_typ["D"] = ("rec", EV)
  task_event = sc.add(M.MEvent("task_event", 1))
  fabric_event = sc.add(M.MEvent("fabric_event", 1))
  thread = sc.add(M.MThread("ao.thread", prog=1, state=1))
  pq = sc.add(M.MItemQueue("%s_queue" % kind, 3, {fe.rid: 5}))
  other_pq = sc.add(M.MItemQueue("%s_queue" % ("fifo" if kind == "lifo" else "lifo"), 3, {fe.rid: 5}))
  sc.elem_typ[pq.name] = sc.elem_typ[other_pq.name] = ("rec", FE)
  lists = sc.add(M.MLists("registries", 3, 2))
  sc.default_lists = lists
  sc.elem_typ["registries"] = "pyobj"
  subs = sc.add(M.MDict("%s_subscriptions" % kind, 2))
  other_subs = sc.add(M.MDict("%s_subscriptions" % ("fifo" if kind == "lifo" else "lifo"), 2))
  for d in (subs, other_subs):
    sc.elem_typ[d.name] = "str"
    sc.value_typ[d.name] = ("listref", lists)
  ld = PyObj(ao.LockingDeque, {"deque": D, "locking_queue": Q}, "locking_deque")
  sc.pyobjs.append(ld)
  fabric = PyObj(ao.ActiveFabricSource, {"fabric_task_event": fabric_event,
                                        "fifo_fabric_queue": pq if kind == "fifo" else other_pq, "lifo_fabric_queue": pq if kind == "lifo" else other_pq,
                                        "fifo_subscriptions": subs if kind == "fifo" else other_subs, "lifo_subscriptions": subs if kind == "lifo" else other_subs}, "fabric")
  obj = PyObj(ao.ActiveObject, {"queue": ld, "locking_deque": ld, "instrumented": False, "live_spy": False, "live_trace": False,
                                "activeobject_task_event": task_event, "fabric_task_event": fabric_event, "thread": thread, "fabric": fabric}, "active_object")
  sc.class_intrinsics.append((ao.FabricEvent, lambda comp, a, k: FE.intern(event=a[0], priority=a[1])))
  sc.class_intrinsics.append((ao.HsmEvent, lambda comp, a, k: EV.intern(signal=k["signal"], signal_name=SK(sc.strings.code("META"), "META"))))
  # the not-yet-started path of subscribe/publish builds these; the object of this scenario is started, the path is translated but never taken
  sc.class_intrinsics.append((ao.SubscribeEvent, lambda comp, a, k: SK(NONE, None)))
  sc.class_intrinsics.append((ao.PublishEvent, lambda comp, a, k: SK(NONE, None)))
  all_events = [news] + pend

  def ghost_dispatch(comp, args, kwargs):
    x = comp.intx(args[0])

    def fn(B, st, tid, _x=x):
      ev = ir.evint(_x, st, B)
      return {"disp.e%d" % r.rid: B.ite(B.eq(ev, B.const(r.rid)), B.add(st["disp.e%d" % r.rid], B.const(1)), st["disp.e%d" % r.rid]) for r in all_events}
    comp.ghost(fn, "dispatch", uses=[x])
    return SK(NONE, None)
  sc.method_intrinsics[("HsmWithQueues", "dispatch")] = lambda comp, self_val, args, kwargs: ghost_dispatch(comp, [kwargs.get("e", args[0] if args else None)], {})
  body = "def caller(ao, sub_ev, news, %s):\n" % ", ".join("p%d" % i for i in range(len(pend))) if pend else "def caller(ao, sub_ev, news):\n"
  if subscribe_first:
    body += "  ao.subscribe(sub_ev, queue_type=%r)\n" % kind
  for i in range(pending):
    body += "  ao.post_fifo(p%d)\n" % i
  if not subscribe_first:
    body += "  ao.subscribe(sub_ev, queue_type=%r)\n" % kind
  body += "  ao.publish(news, priority=5)\n"
  for i in range(pending, pending + post_after):
    body += "  ao.post_fifo(p%d)\n" % i
  c = Compiler(sc, 0, "caller")
  c.call_function(SF(node=driver(body, "caller"), closure={}, qualname="scenario.caller", globs={}), [SP(obj), sub_ev, news] + pend, {})
  sc.programs.append(c.finish())
  c = Compiler(sc, 1, "object-thread")
  c.call_function(SF(fn=ao.ActiveObject.run_event, self_val=SP(obj), defcls=ao.ActiveObject), [SO(task_event), SO(fabric_event), SP(ld)], {})
  sc.programs.append(c.finish())
  c = Compiler(sc, 2, "%s-delivery" % kind)
  fn = ao.ActiveFabricSource.thread_runner_fifo if kind == "fifo" else ao.ActiveFabricSource.thread_runner_lifo
  c.call_function(SF(fn=fn, self_val=SP(fabric), defcls=ao.ActiveFabricSource), [SO(fabric_event), SO(pq), SO(subs)], {})
  sc.programs.append(c.finish())
  sc.info = {"kind": kind, "pending": pending, "post_after": post_after, "events": [e.rid for e in all_events], "news": news.rid, "posters": [0], "consumer": 1,
             "subscribe_first": subscribe_first, "handler_post_event": None}
  return sc


# ---- several threads publish to the fabric at once (C08: equal priorities leave in publish order, however many publishers) ---------------
class RecordingQueue:
  """stand-in class of the two fabric queues in the `publishers` scenario: put() is one visible operation and records, in ghost state, the
  sequence number the real FabricEvent.__init__ gave the item"""

  def put(self, item):
    pass


def bind_class_state(sc, cls, skip=()):
  """class attributes that are state shared by every thread: an itertools.count becomes a counter model, an int / None a shared cell, a lock
  a lock model.  Found by looking at the real class, so a class that keeps its counter differently is modelled as it is written."""
  import ast
  import inspect
  import itertools
  import textwrap
  import threading
  out = {}
  # initial values come from the class statement in the source (the live class of this process may have been used already)
  initial = {}
  tree = ast.parse(textwrap.dedent(inspect.getsource(cls)))
  for st in tree.body[0].body:
    if isinstance(st, ast.Assign) and len(st.targets) == 1 and isinstance(st.targets[0], ast.Name):
      try:
        initial[st.targets[0].id] = ast.literal_eval(st.value)
      except (ValueError, SyntaxError):
        pass
  for k, v in vars(cls).items():
    if k.startswith("__") or k in skip or callable(v) or isinstance(v, (staticmethod, classmethod, property)):
      continue
    name = "%s.%s" % (cls.__name__, k)
    if isinstance(v, itertools.count):
      m = sc.add(M.MCounter(name, 0))
      m.initial_py = 0
    elif isinstance(v, bool) or v is None or isinstance(v, int):
      v0 = initial.get(k, v)
      if isinstance(v0, int) and not 0 <= v0 < 8:
        continue              # a constant (priorities, sizes): left to the translator as a static value
      m = sc.add(M.MAttr(name, NONE if v0 is None else int(v0)))
      m.initial_py = v0
    elif isinstance(v, (type(threading.RLock()), type(threading.Lock()))):
      m = sc.add(M.MRLock(name, reentrant=not isinstance(v, type(threading.Lock()))))
      m.initial_py = None
    else:
      continue
    sc.class_attrs[(cls, k)] = m
    out[k] = m
  return out


def publishers(counts=(2, 2)):
  """thread t calls the real ActiveFabricSource.publish `counts[t]` times (same priority); FabricEvent.__init__ is translated as written,
  with the class's numbering state shared between the threads.  Ghost state: for every publish call the sequence numbers its two fabric
  events got, whether it has returned, and which calls of the other threads had returned when it began."""
  import miros.activeobject as ao
  sc = Scenario("publishers")
  prototypes(sc)
  signals_ns(sc)
  EV = RecordClass("event", ["signal", "signal_name"])
  sc.record_pyclass["event"] = ao.HsmEvent
  A = sc.strings.code("A")
  state = bind_class_state(sc, ao.FabricEvent)
  sc.constructible.add(ao.FabricEvent)
  calls = [(t, k) for t, n in enumerate(counts) for k in range(n)]
  for (t, k) in calls:
    sc.ghost["g.done.%d.%d" % (t, k)] = 0
    for kind in ("fifo", "lifo"):
      sc.ghost["g.seq.%s.%d.%d" % (kind, t, k)] = NONE
    for (t2, k2) in calls:
      if t2 != t:
        sc.ghost["g.hb.%d.%d.%d.%d" % (t2, k2, t, k)] = 0
  qm = {kind: sc.add(M.MQueue("%s_queue" % kind, 2 * len(calls))) for kind in ("fifo", "lifo")}
  qobj = {kind: PyObj(RecordingQueue, {"model": qm[kind], "kind": kind}, "%s_queue" % kind) for kind in ("fifo", "lifo")}
  nput = {}

  def put(comp, self_val, args, kwargs):
    kind = self_val.obj.attrs["kind"]
    item = args[0]
    if not (isinstance(item, SP) and item.obj.cls is ao.FabricEvent and "sequence" in item.obj.attrs):
      raise TranslationError("fabric queue put of %r (expected a FabricEvent made on this path, with a sequence attribute)" % (item,))
    k = nput.get((kind, comp.tid), 0)
    nput[(kind, comp.tid)] = k + 1
    x = comp.intx(item.obj.attrs["sequence"])
    name = "g.seq.%s.%d.%d" % (kind, comp.tid, k)
    comp.op(qm[kind], "put", [], want=0)
    comp.ghost(lambda B, st, tid, _x=x, _n=name: {_n: ir.evint(_x, st, B)}, "record " + name, uses=[x])
    return SK(NONE, None)
  sc.method_intrinsics[("RecordingQueue", "put")] = put
  fabric = PyObj(ao.ActiveFabricSource, {"fifo_fabric_queue": qobj["fifo"], "lifo_fabric_queue": qobj["lifo"]}, "fabric")

  def begin(t, k):
    def intr(comp, args, kwargs):
      def fn(B, st, tid):
        return {"g.hb.%d.%d.%d.%d" % (t2, k2, t, k): st["g.done.%d.%d" % (t2, k2)] for (t2, k2) in calls if t2 != t}
      comp.ghost(fn, "begin %d.%d" % (t, k))
      return SK(NONE, None)
    return SI(intr)

  def end(t, k):
    def intr(comp, args, kwargs):
      comp.ghost(lambda B, st, tid: {"g.done.%d.%d" % (t, k): B.const(1)}, "end %d.%d" % (t, k))
      return SK(NONE, None)
    return SI(intr)
  for t, n in enumerate(counts):
    body = "def publisher(fabric, e):\n"
    clo = {}
    for k in range(n):
      body += "  begin%d()\n  fabric.publish(e, priority=5)\n  end%d()\n" % (k, k)
      clo["begin%d" % k] = begin(t, k)
      clo["end%d" % k] = end(t, k)
    ev = EV.new(signal=SK(11 + t, 11 + t), signal_name=SK(A, "A"))
    c = Compiler(sc, t, "publisher%d" % t)
    c.call_function(SF(node=driver(body, "publisher"), closure=clo, qualname="scenario.publisher", globs={}), [SP(fabric), ev], {})
    sc.programs.append(c.finish())
  sc.info = {"counts": list(counts), "calls": [list(c) for c in calls], "class_state": {k: m.cls for k, m in state.items()},
             "class_state_initial": {k: m.initial_py for k, m in state.items()}}
  return sc


# ---- several threads subscribe at once (C07: whichever other objects subscribe, from inside or outside their own threads) ---------------
def subscribers(kind="fifo", prior=False, n=2, same=False):
  """thread t calls the real ActiveFabricSource.subscribe(q_t, A, kind) - n active objects subscribing to one signal from their own
  threads; with `prior` another queue subscribed earlier.  `same`: the threads subscribe the same queue (it must end up registered once)."""
  import miros.activeobject as ao
  sc = Scenario("subscribers")
  prototypes(sc)
  signals_ns(sc)
  EV = RecordClass("event", ["signal", "signal_name"])
  sc.record_pyclass["event"] = ao.HsmEvent
  A = sc.strings.code("A")
  sub_ev = EV.new(signal=SK(20, 20), signal_name=SK(A, "A"))
  queues = [sc.add(M.MDeque("q%d" % i, 2)) for i in range(n + 1)]        # q<n> is the prior subscriber's
  for q in queues:
    sc.elem_typ[q.name] = ("rec", EV)
  qidx = [sc.obj_index(q) for q in queues]
  lists = sc.add(M.MLists("registries", n + 2, n + 1, initial=[[qidx[n]]] if prior else []))
  sc.elem_typ["registries"] = ("obj", "deque")
  subs = sc.add(M.MDict("%s_subscriptions" % kind, 2, items=[(A, 1)] if prior else []))
  other = sc.add(M.MDict("%s_subscriptions" % ("lifo" if kind == "fifo" else "fifo"), 2))
  for d in (subs, other):
    sc.elem_typ[d.name] = "str"
    sc.value_typ[d.name] = ("listref", lists)
  fabric = PyObj(ao.ActiveFabricSource, {"fifo_subscriptions": subs if kind == "fifo" else other, "lifo_subscriptions": subs if kind == "lifo" else other}, "fabric")
  body = "def subscriber(fabric, q, A):\n  fabric.subscribe(q, A, %r)\n" % kind
  for t in range(n):
    c = Compiler(sc, t, "subscriber%d" % t)
    c.call_function(SF(node=driver(body, "subscriber"), closure={}, qualname="scenario.subscriber", globs={}),
                    [SP(fabric), SO(queues[0 if same else t]), sub_ev], {})
    sc.programs.append(c.finish())
  want = ([qidx[0]] if same else qidx[:n]) + ([qidx[n]] if prior else [])
  sc.info = {"kind": kind, "prior": prior, "n": n, "same": same, "signal": A, "want_queue_numbers": want, "queue_numbers": qidx,
             "lists": [lists.nlists, lists.cells], "dict": subs.name}
  return sc
