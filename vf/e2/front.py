"""Front end of pysched: compile the real functions (source re-read with inspect/ast from the imported /repo modules on
every run) into thread programs of IR nodes, by partial evaluation over an environment of static values.

Static values (known at translation time): constants, model objects, composite python objects whose attributes are bound by
the scenario (PyObj), records, functions to inline, intrinsics.  Dynamic values: integer expressions over thread-local
variables.  Every shared operation (a call on a model object, a load/store of a shared attribute) becomes one Op node;
everything else is local.  Anything the translator does not know is a TranslationError (the check is then inconclusive,
never silently wrong)."""
import ast
import inspect
import textwrap
import types

from vf.e2 import ir
from vf.e2.ir import K, V, Bin, Cmp, Not, BoolOp, BK, Ite, truth, as_int, NONE
from vf.e2 import models as M


class TranslationError(Exception):
  pass


# ---- static values -------------------------------------------------------------------------------
class Val:
  pass


class SK(Val):
  """constant; n = its integer code, py = the python value"""

  def __init__(self, n, py):
    self.n, self.py = n, py

  def __repr__(self):
    return "SK(%r)" % (self.py,)


class SE(Val):
  """dynamic integer expression; typ: 'int' | ('rec', RecordClass) | ('obj', model class name)"""

  def __init__(self, x, typ="int"):
    self.x, self.typ = x, typ

  def __repr__(self):
    return "SE(%r:%r)" % (self.x, self.typ)


class SO(Val):
  def __init__(self, model):
    self.model = model


class SP(Val):
  def __init__(self, obj):
    self.obj = obj


class SF(Val):
  """a function to inline: a real python function (source via inspect) or a nested def (AST + captured environment)"""

  def __init__(self, fn=None, self_val=None, defcls=None, node=None, closure=None, qualname=None, globs=None):
    self.fn, self.self_val, self.defcls, self.node, self.closure, self.qualname, self.globs = fn, self_val, defcls, node, closure, qualname, globs


class SM(Val):
  """bound method of a model object (static model, or a dynamic reference: class name + index expression)"""

  def __init__(self, target, name):
    self.target, self.name = target, name


class SI(Val):
  """intrinsic supplied by the scenario: fn(compiler, args, kwargs) -> Val"""

  def __init__(self, fn, name="intrinsic"):
    self.fn, self.name = fn, name


class ST(Val):
  def __init__(self, items):
    self.items = list(items)


class SRec(Val):
  def __init__(self, rc, rid):
    self.rc, self.rid = rc, rid


class SSnap(Val):
  """thread-local snapshot of a container: length variable + cell variables"""

  def __init__(self, lenvar, cells, typ="int"):
    self.lenvar, self.cells, self.typ = lenvar, cells, typ


class SSnap2(Val):
  """snapshot of a dict's items: length variable, key cells, value cells"""

  def __init__(self, lenvar, kcells, vcells, ktyp="int"):
    self.lenvar, self.kcells, self.vcells, self.ktyp = lenvar, kcells, vcells, ktyp


class SNs(Val):
  """namespace: attribute name -> Val (stands for a module or a simple object)"""

  def __init__(self, attrs, name="ns"):
    self.attrs, self.name = dict(attrs), name


class SSuper(Val):
  def __init__(self, self_val, defcls):
    self.self_val, self.defcls = self_val, defcls


class SStar(Val):
  def __init__(self, v):
    self.v = v


class SKw(Val):
  def __init__(self, d):
    self.d = dict(d)


class SClass(Val):
  def __init__(self, cls):
    self.cls = cls


class SDictView(Val):
  def __init__(self, model, kind):
    self.model, self.kind = model, kind


class PyObj:
  """a composite python object of the scenario: real class (for method resolution) + attribute bindings;
  `model` = the container model behind a dict subclass"""

  def __init__(self, cls, attrs=None, name=None, model=None):
    self.cls, self.attrs, self.name, self.model = cls, dict(attrs or {}), name or cls.__name__, model


class RecordClass:
  """records (namedtuples / events) are static; a dynamic reference is the record's number (1..), 0 = no record"""

  def __init__(self, name, fields):
    self.name, self.fields, self.records = name, list(fields), []

  def new(self, **fields):
    for f in self.fields:
      if f not in fields:
        raise TranslationError("record %s lacks field %s" % (self.name, f))
    self.records.append(fields)
    return SRec(self, len(self.records))

  def intern(self, **fields):
    for i, r in enumerate(self.records):
      if all(_same(r[f], fields[f]) for f in self.fields):
        return SRec(self, i + 1)
    return self.new(**fields)


def _same(a, b):
  if isinstance(a, SK) and isinstance(b, SK):
    return a.n == b.n
  if isinstance(a, SO) and isinstance(b, SO):
    return a.model is b.model
  if isinstance(a, SRec) and isinstance(b, SRec):
    return a.rc is b.rc and a.rid == b.rid
  if isinstance(a, SP) and isinstance(b, SP):
    return a.obj is b.obj
  if isinstance(a, SClass) and isinstance(b, SClass):
    return a.cls is b.cls
  return a is b


class Strings:
  """interned strings: numbered downwards from NONE - 1; integer constants must stay below the lowest string code"""

  def __init__(self):
    self.codes = {}
    self.max_int = 0

  def code(self, s):
    if s not in self.codes:
      self.codes[s] = NONE - 1 - len(self.codes)
      if self.codes[s] <= self.max_int:
        raise TranslationError("value range exhausted (strings meet integers)")
    return self.codes[s]

  def note_int(self, n):
    self.max_int = max(self.max_int, n)
    if self.codes and n >= min(self.codes.values()):
      raise TranslationError("value range exhausted (integer %d meets strings)" % n)


class Frame:
  def __init__(self, qualname, defcls, self_val, globs, closure, prefix):
    self.qualname, self.defcls, self.self_val, self.globs, self.closure, self.prefix = qualname, defcls, self_val, globs, closure or {}, prefix
    self.env = {}
    self.owned = {}          # name -> state variable owned by this name
    self.ret_edges = []
    self.ret_var = None
    self.ret_static = []
    self.n_returns = 0


class Loop:
  def __init__(self):
    self.break_edges = []
    self.continue_edges = []


class Program:
  def __init__(self, tid, name):
    self.tid, self.name = tid, name
    self.nodes = []
    self.entry = None
    self.locals = {}         # state variable -> initial value
    self.sources = []        # qualified names of the functions translated
    self.skipped = []


class Compiler:
  """compiles one thread program"""

  def __init__(self, scenario, tid, name):
    self.sc = scenario
    self.prog = Program(tid, name)
    self.tid = tid
    self.dangling = []
    self.frames = []
    self.handlers = []       # stack of (names or None, edges list) for enclosing try blocks
    self.loops = []
    self.dyn = 0
    self.ntemp = 0
    self.depth = 0
    self.cur_src = None
    self.start_marker = Node0 = ir.Jump()
    self._emit(Node0)
    self.prog.entry = Node0.id

  # ---- emission --------------------------------------------------------------------------------
  def _emit(self, node):
    node.id = len(self.prog.nodes)
    node.src = self.cur_src
    self.prog.nodes.append(node)
    for (n, attr) in self.dangling:
      self._patch(n, attr, node.id)
    self.dangling = [(node, "next")]
    return node

  @staticmethod
  def _patch(n, attr, target):
    if isinstance(attr, tuple):
      getattr(n, attr[0])[attr[1]] = target
    else:
      setattr(n, attr, target)

  def patch_to(self, edges, target):
    for (n, attr) in edges:
      self._patch(n, attr, target)

  def label(self):
    """a jump node usable as a jump target"""
    return self._emit(ir.Jump())

  def var(self, hint, init=0):
    self.ntemp += 1
    name = "t%d.%s%d" % (self.tid, hint, self.ntemp)
    self.prog.locals[name] = init
    return name

  def assign(self, dst, x):
    self._emit(ir.Assign(dst=dst, expr=as_int(x)))

  def op(self, target, name, args, want=1, typ="int"):
    """emit a shared operation; returns the result Val"""
    argx = []
    for a in args:
      if isinstance(a, int):
        argx.append(a)             # static python int argument (rotate amount, subscript index)
      else:
        argx.append(as_int(self.intx(a)))
    exc = {}
    node = ir.Op(target=target, name=name, args=argx, exc=exc, dst=None)
    for exname in self.sc.op_exceptions(target, name):
      h = self.find_handler(exname)
      if h is None:
        exc[exname] = None
      else:
        exc[exname] = -1
        h.append((node, ("exc", exname)))
    if want == 0:
      self._emit(node)
      return SK(NONE, None)
    if want == 1:
      dst = self.var(name.strip("_"))
      node.dst = [dst]
      self._emit(node)
      return SE(V(dst), typ)
    dsts = [self.var("%s_%d_" % (name.strip("_"), i)) for i in range(want)]
    node.dst = dsts
    self._emit(node)
    return dsts

  def find_handler(self, exname):
    for entry in reversed(self.handlers):
      names, edges = entry[0], entry[1]
      if names == "<with>":
        # a with-block: the exception passes through its exit (release), then goes on outwards
        return edges.setdefault(exname, [])
      if names is None or exname in names or "Exception" in names or "BaseException" in names:
        return edges
    return None

  def raise_exc(self, exname):
    h = self.find_handler(exname)
    if h is None:
      self._emit(ir.End(kind="crashed:" + exname))
      self.dangling = []
    else:
      j = self._emit(ir.Jump())
      h.append((j, "next"))
      self.dangling = []

  # ---- values ----------------------------------------------------------------------------------------
  def lift(self, py):
    if py is None:
      return SK(NONE, None)
    if py is True:
      return SK(1, True)
    if py is False:
      return SK(0, False)
    if isinstance(py, int):
      if not (0 <= py < NONE):
        raise TranslationError("integer constant %d outside the modelled range" % py)
      self.sc.strings.note_int(py)
      return SK(py, py)
    if isinstance(py, str):
      return SK(self.sc.strings.code(py), py)
    if isinstance(py, Val):
      return py
    if isinstance(py, M.Model):
      return SO(py)
    if isinstance(py, PyObj):
      return SP(py)
    if isinstance(py, (types.FunctionType,)):
      return SF(fn=py)
    if isinstance(py, type):
      return SClass(py)
    if isinstance(py, tuple):
      return ST([self.lift(x) for x in py])
    if isinstance(py, float):
      return SK(1, py)             # periods: only passed to time.sleep
    raise TranslationError("cannot lift python value %r" % (py,))

  def intx(self, v):
    """integer expression of an int-like Val"""
    if isinstance(v, SK):
      return K(v.n)
    if isinstance(v, SE):
      return v.x
    if isinstance(v, SRec):
      return K(v.rid)
    if isinstance(v, SO):
      return K(self.sc.obj_index(v.model))
    if isinstance(v, SP) and v.obj in self.sc.pyobjs:
      return K(self.sc.pyobjs.index(v.obj) + 1)
    if isinstance(v, ir.X):
      return v
    raise TranslationError("value %r is not integer-like" % (v,))

  def intlike(self, v):
    return isinstance(v, (SK, SE, SRec))

  # ---- functions -------------------------------------------------------------------------------------------
  def fn_ast(self, fn):
    src = textwrap.dedent(inspect.getsource(fn))
    tree = ast.parse(src)
    node = tree.body[0]
    if not isinstance(node, (ast.FunctionDef,)):
      raise TranslationError("source of %r is not a function definition" % (fn,))
    line0 = fn.__code__.co_firstlineno - 1
    return node, line0

  def call_function(self, sf, args, kwargs):
    """inline a function; returns its result Val"""
    self.depth += 1
    if self.depth > 24:
      raise TranslationError("inlining depth exceeded (recursion?)")
    if sf.fn is not None:
      fn = sf.fn
      node, line0 = self.fn_ast(fn)
      qual = fn.__module__ + "." + fn.__qualname__
      globs = fn.__globals__
      closure = {}
      if fn.__closure__:
        for name, cell in zip(fn.__code__.co_freevars, fn.__closure__):
          try:
            closure[name] = cell.cell_contents
          except ValueError:
            pass
      defcls = sf.defcls
      defaults = fn.__defaults__ or ()
      kwdefaults = fn.__kwdefaults__ or {}
    else:
      node, line0, qual, globs, closure, defcls = sf.node, 0, sf.qualname, sf.globs, sf.closure, sf.defcls
      defaults = None
      kwdefaults = {}
    if qual not in self.prog.sources:
      self.prog.sources.append(qual)
    fr = Frame(qual, defcls, sf.self_val, globs, closure, "f%d" % len(self.frames))
    fr.line0 = line0
    # bind parameters
    a = node.args
    params = [p.arg for p in a.args]
    pos = list(args)
    if sf.self_val is not None:
      pos = [sf.self_val] + pos
    expanded = []
    for p in pos:
      if isinstance(p, SStar):
        if not isinstance(p.v, ST):
          raise TranslationError("cannot expand *%r" % (p.v,))
        expanded.extend(p.v.items)
      else:
        expanded.append(p)
    pos = expanded
    kw = dict(kwargs)
    if defaults is None:
      dvals = [self.expr_static_default(d, fr) for d in a.defaults]
    else:
      dvals = [self.lift(d) for d in defaults]
    for i, name in enumerate(params):
      if i < len(pos):
        fr.env[name] = pos[i]
      elif name in kw:
        fr.env[name] = kw.pop(name)
      else:
        di = i - (len(params) - len(dvals))
        if di < 0:
          raise TranslationError("missing argument %s of %s" % (name, qual))
        fr.env[name] = dvals[di]
    extra = pos[len(params):]
    if a.vararg:
      fr.env[a.vararg.arg] = ST(extra)
    elif extra:
      raise TranslationError("too many arguments for %s" % qual)
    for p, d in zip(a.kwonlyargs, a.kw_defaults):
      if p.arg in kw:
        fr.env[p.arg] = kw.pop(p.arg)
      elif d is not None:
        fr.env[p.arg] = self.lift(kwdefaults.get(p.arg)) if defaults is not None else self.expr_static_default(d, fr)
    if a.kwarg:
      fr.env[a.kwarg.arg] = SKw(kw)
    elif kw:
      raise TranslationError("unexpected keyword arguments %s for %s" % (sorted(kw), qual))
    self.frames.append(fr)
    saved_loops, self.loops = self.loops, []
    saved_src = self.cur_src
    saved_dyn = self.dyn
    self.block(node.body)
    # fall off the end
    if self.dangling:
      self.do_return(SK(NONE, None))
    self.frames.pop()
    self.loops = saved_loops
    self.dyn = saved_dyn
    self.depth -= 1
    self.dangling = list(fr.ret_edges)
    if self.dangling:
      self.label()
    self.cur_src = saved_src
    if fr.ret_var is not None:
      return SE(V(fr.ret_var), fr.ret_typ)
    if len(fr.ret_static) == 0:
      return SK(NONE, None)
    first = fr.ret_static[0]
    for other in fr.ret_static[1:]:
      if not _same(first, other):
        if all(isinstance(x, SK) and x.py is None for x in fr.ret_static):
          continue
        raise TranslationError("function %s returns different static objects on different paths" % qual)
    return first

  def expr_static_default(self, d, fr):
    self.frames.append(fr)
    try:
      return self.expr(d)
    finally:
      self.frames.pop()

  def do_return(self, val):
    fr = self.frames[-1]
    fr.n_returns += 1
    if getattr(fr, "withs", None):
      if isinstance(val, SE):
        tmp = self.var("retval")
        self.assign(tmp, val.x)
        val = SE(V(tmp), val.typ)
      self.release_withs()
    dynamic_ctx = self.dyn > 0 or fr.n_returns > 1 or fr.ret_var is not None
    if self.intlike(val) and (isinstance(val, SE) or dynamic_ctx):
      if fr.ret_var is None:
        fr.ret_var = self.var("ret")
        fr.ret_typ = val.typ if isinstance(val, SE) else "int"
        # earlier static int returns must be stored as well
        for (edges, sval) in getattr(fr, "pending_static", []):
          pass
      if isinstance(val, SE) and val.typ != "int":
        fr.ret_typ = val.typ
      self.assign(fr.ret_var, self.intx(val))
    else:
      if fr.ret_var is not None and self.intlike(val):
        self.assign(fr.ret_var, self.intx(val))
      else:
        fr.ret_static.append(val)
    j = self._emit(ir.Jump())
    fr.ret_edges.append((j, "next"))
    self.dangling = []

  # ---- statements --------------------------------------------------------------------------------------------
  def block(self, stmts):
    for s in stmts:
      if not self.dangling:
        break                      # unreachable
      self.stmt(s)

  def stmt(self, s):
    fr = self.frames[-1]
    self.cur_src = (fr.qualname, getattr(s, "lineno", 0) + getattr(fr, "line0", 0))
    m = getattr(self, "s_" + type(s).__name__, None)
    if m is None:
      raise TranslationError("statement %s not supported (%s line %s)" % (type(s).__name__, fr.qualname, self.cur_src[1]))
    m(s)

  def s_Pass(self, s):
    pass

  def s_Global(self, s):
    pass

  def s_Expr(self, s):
    if isinstance(s.value, ast.Constant):
      return                        # docstring / string used as comment
    self.expr(s.value)

  def s_Return(self, s):
    val = SK(NONE, None) if s.value is None else self.expr(s.value)
    self.do_return(val)

  def s_FunctionDef(self, s):
    fr = self.frames[-1]
    # python closures bind late: the nested function sees the enclosing variables as they are when it is called (a name the enclosing
    # function assigns after the def is visible too) - a live view of the enclosing frame, not a copy
    import collections
    captured = collections.ChainMap(fr.env, fr.closure)
    fr.env[s.name] = SF(node=s, closure=captured, qualname=fr.qualname + ".<locals>." + s.name, globs=fr.globs, defcls=fr.defcls)

  def e_Lambda(self, e):
    """a lambda is a nested function whose body is one return statement"""
    import collections
    fr = self.frames[-1]
    self.ntemp += 1
    node = ast.FunctionDef(name="_vf_lambda_%d" % self.ntemp, args=e.args, body=[ast.Return(value=e.body)], decorator_list=[], returns=None, type_comment=None)
    ast.copy_location(node, e)
    ast.fix_missing_locations(node)
    return SF(node=node, closure=collections.ChainMap(fr.env, fr.closure), qualname=fr.qualname + ".<locals>.<lambda>", globs=fr.globs, defcls=fr.defcls)

  def s_Raise(self, s):
    exname = "Exception"
    e = s.exc
    if isinstance(e, ast.Call):
      e = e.func
    if isinstance(e, ast.Name):
      exname = e.id
    elif isinstance(e, ast.Attribute):
      exname = e.attr
    elif isinstance(e, ast.Constant):
      exname = "TypeError"        # raise("text"): exceptions must derive from BaseException
    self.raise_exc(exname)

  def s_Assert(self, s):
    c = self.cond(s.test)
    if isinstance(c, BK):
      if not c.v:
        self.raise_exc("AssertionError")
      return
    br = self._emit(ir.Branch(cond=c, t=None, f=None))
    self.dangling = [(br, "f")]
    self.raise_exc("AssertionError")
    self.dangling = [(br, "t")]
    self.label()

  def assigned_names(self, stmts):
    out = []
    for s in stmts:
      for n in ast.walk(s):
        if isinstance(n, (ast.Assign,)):
          for t in n.targets:
            for x in ast.walk(t):
              if isinstance(x, ast.Name):
                out.append(x.id)
        elif isinstance(n, (ast.AugAssign, ast.AnnAssign)):
          if isinstance(n.target, ast.Name):
            out.append(n.target.id)
        elif isinstance(n, (ast.For,)):
          for x in ast.walk(n.target):
            if isinstance(x, ast.Name):
              out.append(x.id)
    return out

  def materialize(self, names):
    """names assigned inside a dynamic region become owned state variables (so that paths can merge)"""
    fr = self.frames[-1]
    for name in names:
      if name in fr.owned:
        continue
      cur = fr.env.get(name)
      if cur is None:
        v = self.var(name)
        fr.owned[name] = v
        fr.env[name] = SE(V(v))
        fr.fresh = getattr(fr, "fresh", set())
        fr.fresh.add(name)
      elif self.intlike(cur):
        v = self.var(name)
        fr.owned[name] = v
        self.assign(v, self.intx(cur))
        fr.env[name] = SE(V(v), cur.typ if isinstance(cur, SE) else ("int" if not isinstance(cur, SRec) else ("rec", cur.rc)))
      # object-valued names stay static (re-binding them to a different object in a dynamic region is an error, see bind)

  def bind(self, name, val):
    fr = self.frames[-1]
    if name in fr.owned and not self.intlike(val) and name in getattr(fr, "fresh", ()):
      # the name was reserved as a number when the dynamic region was entered, but it only ever holds an object (a snapshot, a list)
      del fr.owned[name]
      fr.fresh.discard(name)
      fr.env[name] = val
      return
    if name in fr.owned:
      fr.fresh = getattr(fr, "fresh", set())
      fr.fresh.discard(name)
      if not self.intlike(val):
        raise TranslationError("name %s holds a number on one path and an object on another (%s)" % (name, fr.qualname))
      cur = fr.env[name]
      if isinstance(val, SE) and val.typ != "int":
        cur.typ = val.typ
      elif isinstance(val, SRec):
        cur.typ = ("rec", val.rc)
      self.assign(fr.owned[name], self.intx(val))
      return
    if self.dyn > 0 and name in fr.env and not self.intlike(val) and not _same(fr.env[name], val):
      raise TranslationError("object-valued name %s re-bound under dynamic control flow (%s)" % (name, fr.qualname))
    if isinstance(val, SE):
      # copy into a variable of its own: the expression's inputs may change later
      v = self.var(name)
      fr.owned[name] = v
      self.assign(v, val.x)
      fr.env[name] = SE(V(v), val.typ)
      return
    fr.env[name] = val

  def s_Assign(self, s):
    val = self.expr(s.value)
    for t in s.targets:
      self.assign_target(t, val)

  def assign_target(self, t, val):
    if isinstance(t, ast.Name):
      self.bind(t.id, val)
    elif isinstance(t, ast.Tuple):
      # a record (namedtuple) unpacks into its fields, in field order
      if isinstance(val, SRec) and len(val.rc.fields) == len(t.elts):
        val = ST([self.lift(val.rc.records[val.rid - 1][f]) for f in val.rc.fields])
      elif isinstance(val, SE) and isinstance(val.typ, tuple) and val.typ[0] == "rec" and len(val.typ[1].fields) == len(t.elts):
        val = ST([self.rec_field(val, f) for f in val.typ[1].fields])
      if not isinstance(val, ST) or len(val.items) != len(t.elts):
        raise TranslationError("cannot unpack %r" % (val,))
      for x, v in zip(t.elts, val.items):
        self.assign_target(x, v)
    elif isinstance(t, ast.Attribute):
      base = self.expr(t.value)
      self.set_attr(base, self.mangle(t.attr), val)
    elif isinstance(t, ast.Subscript) and isinstance(t.slice, ast.Slice) and t.slice.lower is None and t.slice.upper is None and t.slice.step is None:
      base = self.expr(t.value)
      if not (isinstance(base, SE) and isinstance(base.typ, tuple) and base.typ[0] == "listref"):
        raise TranslationError("slice assignment on %r" % (base,))
      lists = base.typ[1]
      if isinstance(val, SE) and isinstance(val.typ, tuple) and val.typ[0] == "listref" and val.typ[1] is lists:
        self.op(lists, "assign_from", [base, val], want=0)       # from another list: one C-level copy
        return
      if isinstance(val, ST) and not val.items:
        self.op(lists, "assign_from", [base, SK(0, 0)], want=0)   # lst[:] = () / []
        return
      snap = val if isinstance(val, SSnap) else self.snapshot(val)
      cells = [SE(V(cv)) for cv in snap.cells][:lists.cells]
      while len(cells) < lists.cells:
        cells.append(SK(0, 0))
      self.op(lists, "replace", [base, SE(V(snap.lenvar))] + cells, want=0)
    elif isinstance(t, ast.Subscript):
      base = self.expr(t.value)
      key = self.expr(t.slice)
      model = self.container_model(base)
      if model is None or model.cls != "dict":
        raise TranslationError("subscript assignment on %r" % (base,))
      vt = self.sc.value_typ.get(model.name)
      if isinstance(val, ST) and isinstance(vt, tuple) and vt[0] == "listref":
        if len(val.items) != 1:
          raise TranslationError("a new list value with %d elements" % len(val.items))
        val = self.op(vt[1], "new", [val.items[0]], typ=vt)
      self.op(model, "setitem", [key, val], want=0)
    else:
      raise TranslationError("assignment target %s" % type(t).__name__)

  def s_AugAssign(self, s):
    if isinstance(s.target, ast.Name):
      cur = self.expr(ast.Name(id=s.target.id, ctx=ast.Load()))
      rhs = self.expr(s.value)
      self.bind(s.target.id, self.binop(s.op, cur, rhs))
    elif isinstance(s.target, ast.Attribute):
      base = self.expr(s.target.value)
      cur = self.get_attr(base, self.mangle(s.target.attr))
      rhs = self.expr(s.value)
      self.set_attr(base, self.mangle(s.target.attr), self.binop(s.op, cur, rhs))
    else:
      raise TranslationError("augmented assignment target")

  def s_If(self, s):
    c = self.cond(s.test)
    if isinstance(c, BK):
      self.block(s.body if c.v else s.orelse)
      return
    self.materialize(self.assigned_names(s.body + s.orelse))
    br = self._emit(ir.Branch(cond=c, t=None, f=None))
    self.dyn += 1
    self.dangling = [(br, "t")]
    self.block(s.body)
    ends = list(self.dangling)
    self.dangling = [(br, "f")]
    self.block(s.orelse)
    self.dyn -= 1
    self.dangling = ends + self.dangling
    if self.dangling:
      self.label()

  def s_While(self, s):
    self.materialize(self.assigned_names(s.body))
    head = self.label()
    self.dyn += 1
    c = self.cond(s.test)
    lp = Loop()
    self.loops.append(lp)
    exit_edges = []
    if isinstance(c, BK):
      if not c.v:
        self.loops.pop()
        self.dyn -= 1
        return
    else:
      br = self._emit(ir.Branch(cond=c, t=None, f=None))
      exit_edges.append((br, "f"))
      self.dangling = [(br, "t")]
    self.block(s.body)
    self.patch_to(self.dangling + lp.continue_edges, head.id)
    self.loops.pop()
    self.dyn -= 1
    self.dangling = exit_edges + lp.break_edges
    if s.orelse:
      raise TranslationError("while/else")
    if self.dangling:
      self.label()

  def s_Break(self, s):
    self.release_withs(len(self.loops))
    j = self._emit(ir.Jump())
    self.loops[-1].break_edges.append((j, "next"))
    self.dangling = []

  def s_Continue(self, s):
    self.release_withs(len(self.loops))
    j = self._emit(ir.Jump())
    self.loops[-1].continue_edges.append((j, "next"))
    self.dangling = []

  def s_For(self, s):
    it = s.iter
    self.materialize(self.assigned_names(s.body) + [x.id for x in ast.walk(s.target) if isinstance(x, ast.Name)])
    rev = False
    if isinstance(it, ast.Call) and isinstance(it.func, ast.Name) and it.func.id == "reversed":
      rev = True
      it = it.args[0]
    if isinstance(it, ast.Call) and isinstance(it.func, ast.Name) and it.func.id == "range" and len(it.args) == 1:
      n = self.expr(it.args[0])
      nv = self.var("n")
      self.assign(nv, self.intx(n))
      iv = self.var("i")
      self.assign(iv, K(0))
      head = self.label()
      self.dyn += 1
      br = self._emit(ir.Branch(cond=Cmp("lt", V(iv), V(nv)), t=None, f=None))
      self.dangling = [(br, "t")]
      idx = Bin("sub", Bin("sub", V(nv), K(1)), V(iv)) if rev else V(iv)
      self.assign_target(s.target, SE(idx))
      self.loop_body(s, head, iv, [(br, "f")])
      return
    if rev:
      raise TranslationError("reversed() over something other than range()")
    src = self.expr(it)
    if isinstance(src, SSnap):
      iv = self.var("i")
      self.assign(iv, K(0))
      head = self.label()
      self.dyn += 1
      br = self._emit(ir.Branch(cond=Cmp("lt", V(iv), V(src.lenvar)), t=None, f=None))
      self.dangling = [(br, "t")]
      x = K(0)
      for j in reversed(range(len(src.cells))):
        x = Ite(Cmp("eq", V(iv), K(j)), V(src.cells[j]), x)
      self.assign_target(s.target, SE(x, src.typ))
      self.loop_body(s, head, iv, [(br, "f")])
      return
    if isinstance(src, SE) and isinstance(src.typ, tuple) and src.typ[0] == "listref":
      lists = src.typ[1]
      lref = self.var("listref")
      self.assign(lref, src.x)
      iv = self.var("i")
      self.assign(iv, K(0))
      head = self.label()
      self.dyn += 1
      stop_edges = []
      self.handlers.append((("StopIteration",), stop_edges))
      et = self.sc.elem_typ.get(lists.name, "int")
      item = self.op(lists, "iter_next", [SE(V(lref)), SE(V(iv))], typ=et if et != "pyobj" else "int")
      self.handlers.pop()
      if et == "pyobj":
        if len(self.sc.pyobjs) != 1:
          raise TranslationError("a list of composite objects with %d candidates" % len(self.sc.pyobjs))
        item = SP(self.sc.pyobjs[0])           # the only composite object that can be in such a list
      self.assign_target(s.target, item)
      self.loop_body(s, head, iv, stop_edges)
      return
    if isinstance(src, SSnap2):
      iv = self.var("i")
      self.assign(iv, K(0))
      head = self.label()
      self.dyn += 1
      br = self._emit(ir.Branch(cond=Cmp("lt", V(iv), V(src.lenvar)), t=None, f=None))
      self.dangling = [(br, "t")]
      kx, vx = K(0), K(0)
      for j in reversed(range(len(src.kcells))):
        kx = Ite(Cmp("eq", V(iv), K(j)), V(src.kcells[j]), kx)
        vx = Ite(Cmp("eq", V(iv), K(j)), V(src.vcells[j]), vx)
      self.assign_target(s.target, ST([SE(kx, src.ktyp), SE(vx)]))
      self.loop_body(s, head, iv, [(br, "f")])
      return
    if isinstance(src, SDictView):
      s0 = self.op(src.model, "iter", [])
      sv = self.var("size0")
      self.assign(sv, s0.x)
      iv = self.var("i")
      self.assign(iv, K(0))
      head = self.label()
      self.dyn += 1
      # next(): StopIteration leaves the loop
      stop_edges = []
      self.handlers.append((("StopIteration",), stop_edges))
      kv = self.op(src.model, "next", [SE(V(iv)), SE(V(sv))], want=2)
      self.handlers.pop()
      key, val = SE(V(kv[0]), self.sc.dict_key_typ(src.model)), SE(V(kv[1]))
      item = {"items": ST([key, val]), "keys": key, "values": val}[src.kind]
      self.assign_target(s.target, item)
      self.loop_body(s, head, iv, stop_edges)
      return
    raise TranslationError("for loop over %r" % (src,))

  def loop_body(self, s, head, iv, exit_edges):
    lp = Loop()
    self.loops.append(lp)
    self.block(s.body)
    # continue target: increment then head
    edges = self.dangling + lp.continue_edges
    if edges:
      self.dangling = edges
      self.assign(iv, Bin("add", V(iv), K(1)))
      self.patch_to(self.dangling, head.id)
    self.loops.pop()
    self.dyn -= 1
    self.dangling = list(exit_edges) + lp.break_edges
    if s.orelse:
      raise TranslationError("for/else")
    if self.dangling:
      self.label()

  def s_Try(self, s):
    if s.orelse:
      raise TranslationError("try/else")
    if s.finalbody:
      return self.try_finally(s)
    hs = []
    for h in s.handlers:
      if h.type is None:
        names = None
      elif isinstance(h.type, ast.Name):
        names = (h.type.id,)
      elif isinstance(h.type, ast.Attribute):
        names = (h.type.attr,)
      elif isinstance(h.type, ast.Tuple):
        names = tuple(x.id if isinstance(x, ast.Name) else x.attr for x in h.type.elts)
      else:
        raise TranslationError("except clause")
      hs.append((names, [], h))
    self.materialize(self.assigned_names(s.body + [x for h in s.handlers for x in h.body]))
    # innermost handler first: push in reverse order so that the first clause wins
    for names, edges, h in reversed(hs):
      self.handlers.append((names, edges))
    self.dyn += 1
    self.block(s.body)
    for _ in hs:
      self.handlers.pop()
    ends = list(self.dangling)
    for names, edges, h in hs:
      if not edges:
        continue
      self.dangling = edges
      self.label()
      self.block(h.body)
      ends += self.dangling
    self.dyn -= 1
    self.dangling = ends
    if self.dangling:
      self.label()

  def try_finally(self, s):
    """try: ... [except ...] finally: F  -  F runs on normal completion, when an exception passes through, and before a return / break /
    continue that leaves the block"""
    fr = self.frames[-1]
    per_exc = {}
    entry = ("<with>", per_exc, None, len(self.loops))          # same propagation mechanics as a with-block
    fentry = ("<finally>", per_exc, s.finalbody, len(self.loops))
    self.handlers.append(entry)
    fr.withs = getattr(fr, "withs", [])
    fr.withs.append(fentry)
    inner = ast.Try(body=s.body, handlers=s.handlers, orelse=[], finalbody=[]) if s.handlers else None
    self.dyn += 1
    if inner is not None:
      ast.copy_location(inner, s)
      self.s_Try(inner)
    else:
      self.block(s.body)
    self.dyn -= 1
    fr.withs.pop()
    self.handlers.pop()
    ends = []
    if self.dangling:
      self.block(s.finalbody)
      ends = list(self.dangling)
    for exname, edges in per_exc.items():
      if not edges:
        continue
      self.dangling = edges
      self.label()
      self.block(s.finalbody)
      if self.dangling:
        self.raise_exc(exname)
    self.dangling = ends
    if self.dangling:
      self.label()

  def s_With(self, s):
    if len(s.items) != 1:
      raise TranslationError("with statement with several items")
    cm = self.expr(s.items[0].context_expr)
    if isinstance(cm, SO) and cm.model.cls == "RLock":
      lock_target = cm.model
    elif isinstance(cm, SE) and isinstance(cm.typ, tuple) and cm.typ == ("obj", "RLock"):
      # a lock that was stored in a shared attribute at run time: remember which one we took
      lv = self.var("lockref")
      self.assign(lv, cm.x)
      lock_target = ("RLock", V(lv))
    else:
      raise TranslationError("with statement on %r (only locks are modelled)" % (cm,))
    if s.items[0].optional_vars is not None:
      raise TranslationError("with ... as")
    self.op(lock_target, "acquire", [])
    per_exc = {}
    fr = self.frames[-1]
    entry = ("<with>", per_exc, lock_target, len(self.loops))
    self.handlers.append(entry)
    fr.withs = getattr(fr, "withs", [])
    fr.withs.append(entry)
    self.block(s.body)
    fr.withs.pop()
    self.handlers.pop()
    ends = []
    if self.dangling:
      self.op(lock_target, "release", [], want=0)
      ends = list(self.dangling)
    for exname, edges in per_exc.items():
      if not edges:
        continue
      self.dangling = edges
      self.label()
      self.op(lock_target, "release", [], want=0)
      self.raise_exc(exname)
    self.dangling = ends
    if self.dangling:
      self.label()

  def release_withs(self, upto_loops=None):
    """return / break / continue leave the enclosing with-blocks and try/finally blocks of this frame: release their locks / run
    their finally bodies first (innermost first)"""
    fr = self.frames[-1]
    entries = list(getattr(fr, "withs", []))
    for k in range(len(entries) - 1, -1, -1):
      entry = entries[k]
      if upto_loops is not None and entry[3] < upto_loops:
        break
      if entry[0] == "<with>":
        self.op(entry[2], "release", [], want=0)
      else:
        # a finally body: compiled here with the enclosing cleanups only
        saved = fr.withs
        fr.withs = entries[:k]
        saved_handlers = self.handlers
        self.handlers = [h for h in self.handlers if h is not entry]
        self.block(entry[2])
        self.handlers = saved_handlers
        fr.withs = saved

  # ---- expressions ---------------------------------------------------------------------------------------------
  def cond(self, e):
    v = self.expr(e)
    return self.truthy(v)

  def truthy(self, v):
    if isinstance(v, SK):
      if isinstance(v.py, str):
        return BK(bool(v.py))
      return BK(bool(v.py))
    if isinstance(v, SE):
      return truth(v.x) if v.typ == "int" else Cmp("ne", v.x, K(0))
    if isinstance(v, (SO, SP, SF, SRec, SNs, SM, SI, SClass)):
      return BK(True)
    if isinstance(v, ST):
      return BK(bool(v.items))
    raise TranslationError("truth value of %r" % (v,))

  def expr(self, e):
    m = getattr(self, "e_" + type(e).__name__, None)
    if m is None:
      raise TranslationError("expression %s not supported (%s)" % (type(e).__name__, self.cur_src))
    return m(e)

  def e_Constant(self, e):
    return self.lift(e.value)

  def e_Name(self, e):
    fr = self.frames[-1]
    name = e.id
    if name in fr.env:
      return fr.env[name]
    if name in fr.closure:
      v = fr.closure[name]
      return v if isinstance(v, Val) else self.lift_global(name, v)
    if name in self.sc.globals:
      return self.lift(self.sc.globals[name])
    if fr.globs is not None and name in fr.globs:
      return self.lift_global(name, fr.globs[name])
    if name in ("len", "isinstance", "str", "super", "list", "reversed", "range", "id", "print", "int", "bool", "type", "next"):
      return SI(getattr(self, "b_" + name), name)
    if name in ("True", "False", "None"):
      return self.lift({"True": True, "False": False, "None": None}[name])
    import builtins
    if hasattr(builtins, name) and isinstance(getattr(builtins, name), type):
      return SClass(getattr(builtins, name))
    raise TranslationError("unknown name %s in %s" % (name, fr.qualname))

  def lift_global(self, name, py):
    if isinstance(py, types.ModuleType):
      if name in self.sc.modules:
        return self.sc.modules[name]
      raise TranslationError("module %s is not modelled" % name)
    for k, v in self.sc.by_identity:
      if k is py:
        return self.lift(v)
    import threading
    if py is threading.get_ident:
      return SI(lambda comp, a, k: SK(comp.tid + 1, comp.tid + 1), "get_ident")
    if py is threading.current_thread:
      # threads are told apart by ident and (unless a scenario says otherwise) by name
      def current_thread(comp, a, k):
        nm = "thread-%d" % comp.tid
        return SNs({"name": SK(comp.sc.strings.code(nm), nm), "ident": SK(comp.tid + 1, comp.tid + 1)}, "thread")
      return SI(current_thread, "current_thread")
    if isinstance(py, (type(threading.RLock()), type(threading.Lock()))):
      # a module-level lock: one model per lock object, named after the global
      fr = self.frames[-1]
      modname = (fr.globs or {}).get("__name__", "?")
      model = M.MRLock("lock.%s.%s" % (modname, name), reentrant=not isinstance(py, type(threading.Lock())))
      self.sc.add(model)
      self.sc.by_identity.append((py, model))
      self.sc.global_locks.append((modname, name, model.name))
      return SO(model)
    return self.lift(py)

  def mangle(self, attr):
    fr = self.frames[-1]
    if attr.startswith("__") and not attr.endswith("__") and fr.defcls is not None:
      return "_%s%s" % (fr.defcls.__name__.lstrip("_"), attr)
    return attr

  def e_Attribute(self, e):
    base = self.expr(e.value)
    return self.get_attr(base, self.mangle(e.attr))

  def find_method(self, cls, name, after=None):
    mro = list(cls.__mro__)
    if after is not None:
      mro = mro[mro.index(after) + 1:]
    for c in mro:
      if name in c.__dict__:
        return c, c.__dict__[name]
    return None, None

  def get_attr(self, base, attr):
    if isinstance(base, SP):
      obj = base.obj
      if attr in obj.attrs:
        v = obj.attrs[attr]
        v = self.lift(v)
        if isinstance(v, SO) and v.model.cls == "attr":
          return self.op(v.model, "load", [], typ=getattr(v.model, "typ", "int"))
        return v
      if obj.model is not None and attr in ("items", "keys", "values"):
        return SI(lambda c, a, k, _m=obj.model, _k=attr: SDictView(_m, _k), attr)
      if obj.model is not None and attr == "get":
        return SM(obj.model, "get")
      c, raw = self.find_method(obj.cls, attr)
      if raw is None:
        if self.auto_bind(obj, attr):
          return self.get_attr(base, attr)
        raise TranslationError("attribute %s of %s is not bound by the scenario" % (attr, obj.name))
      return self.bind_class_attr(c, raw, base, attr)
    if isinstance(base, SSuper):
      obj = base.self_val.obj
      c, raw = self.find_method(obj.cls, attr, after=base.defcls)
      if raw is None:
        raise TranslationError("super().%s not found" % attr)
      return self.bind_class_attr(c, raw, base.self_val, attr)
    if isinstance(base, SO) and base.model.cls == "dict" and attr in ("items", "keys", "values"):
      return SI(lambda c, a, k, _m=base.model, _k=attr: SDictView(_m, _k), attr)
    if isinstance(base, SE) and isinstance(base.typ, tuple) and base.typ[0] == "listref":
      lists = base.typ[1]
      if attr == "append":
        return SI(lambda c, a, k, _b=base, _l=lists: c.op(_l, "append", [_b, a[0]], want=0), "list.append")
      raise TranslationError("list method %s" % attr)
    if isinstance(base, SO):
      if (base.model.name, attr) in self.sc.stored_attrs:
        return self.sc.stored_attrs[(base.model.name, attr)]
      try:
        return self.lift(base.model.static_attr(attr))
      except KeyError:
        return SM(base.model, attr)
    if isinstance(base, SE) and isinstance(base.typ, tuple) and base.typ[0] == "obj":
      return SM((base.typ[1], base.x), attr)
    if isinstance(base, SRec):
      return self.lift(base.rc.records[base.rid - 1][attr])
    if isinstance(base, SE) and isinstance(base.typ, tuple) and base.typ[0] == "rec":
      return self.rec_field(base, attr)
    if isinstance(base, SSnap) and attr == "index":
      def index(comp, args, kwargs, _s=base):
        x = comp.intx(args[0])
        found = BoolOp("or", [BoolOp("and", [Cmp("lt", K(j), V(_s.lenvar)), Cmp("eq", V(_s.cells[j]), x)]) for j in range(len(_s.cells))])
        br = comp._emit(ir.Branch(cond=found, t=None, f=None))
        comp.dangling = [(br, "f")]
        comp.raise_exc("ValueError")
        comp.dangling = [(br, "t")]
        comp.label()
        idx = K(0)
        for j in reversed(range(len(_s.cells))):
          idx = Ite(BoolOp("and", [Cmp("lt", K(j), V(_s.lenvar)), Cmp("eq", V(_s.cells[j]), x)]), K(j), idx)
        return SE(idx)
      return SI(index, "list.index")
    if isinstance(base, SNs):
      if attr not in base.attrs:
        raise TranslationError("%s.%s is not modelled" % (base.name, attr))
      return self.lift(base.attrs[attr])
    if isinstance(base, SClass):
      bound = self.sc.class_attrs.get((base.cls, attr))
      if bound is not None:
        # a class attribute the scenario models as shared state (a counter, a cell, a lock)
        if bound.cls == "attr":
          return self.op(bound, "load", [], typ=getattr(bound, "typ", "int"))
        return SO(bound)
      raw = getattr(base.cls, attr)
      return self.lift(raw)
    raise TranslationError("attribute %s of %r (%s)" % (attr, base, self.cur_src))

  def auto_bind(self, obj, attr):
    """an instance attribute the scenario did not foresee (code that gained a lock, a flag, a counter): bound from a real instance of the
    class by the kind of value it holds there - a lock becomes a lock model, an Event an Event model, None / bool / small int / str a
    shared cell whose loads and stores are operations.  Recorded in sc.auto_bound so that the replay harness proxies the same attribute."""
    import threading
    factory = self.sc.proto_factories.get(obj.cls)
    if factory is None:
      return False
    key = ("proto", obj.cls)
    if key not in self.sc.constructed:
      self.sc.constructed[key] = factory()
    proto = self.sc.constructed[key]
    if attr not in vars(proto):
      return False
    v = vars(proto)[attr]
    name = "%s.%s" % (obj.name, attr)
    if isinstance(v, (type(threading.RLock()), type(threading.Lock()))):
      m = self.sc.add(M.MRLock(name, reentrant=not isinstance(v, type(threading.Lock()))))
    elif isinstance(v, threading.Event):
      m = self.sc.add(M.MEvent(name, 1 if v.is_set() else 0))
    elif v is None or isinstance(v, bool) or (isinstance(v, int) and 0 <= v < 16):
      m = self.sc.add(M.MAttr(name, NONE if v is None else int(v)))
    elif isinstance(v, str):
      m = self.sc.add(M.MAttr(name, self.sc.strings.code(v)))
      m.typ = "str"
    elif isinstance(v, dict) and not v and type(v) is dict:
      # an empty dict: a small dict model (3 entries; keys and values are whatever the code stores)
      m = self.sc.add(M.MDict(name, 3))
      obj.attrs[attr] = m
      self.sc.auto_bound.append((obj.name, attr, m.name, "dict"))
      return True
    elif isinstance(v, list) and not v and getattr(self.sc, "default_lists", None) is not None:
      # an empty list: one more list of the scenario's pool of python lists, existing from the start
      lists = self.sc.default_lists
      if len(lists.initial) >= lists.nlists:
        return False
      lists.initial.append([])
      obj.attrs[attr] = SE(K(len(lists.initial)), ("listref", lists))
      self.sc.auto_bound.append((obj.name, attr, lists.name, "list"))
      return True
    else:
      return False
    obj.attrs[attr] = m
    self.sc.auto_bound.append((obj.name, attr, m.name, m.cls))
    return True

  def bind_class_attr(self, c, raw, self_val, attr):
    if isinstance(raw, staticmethod):
      return SF(fn=raw.__func__, defcls=c)
    if isinstance(raw, classmethod):
      raise TranslationError("classmethod %s" % attr)
    if isinstance(raw, types.FunctionType):
      key = (c.__name__, attr)
      if key in self.sc.method_intrinsics:
        fn = self.sc.method_intrinsics[key]
        return SI(lambda comp, a, k, _f=fn, _s=self_val: _f(comp, _s, a, k), "%s.%s" % key)
      # a decorated method: translate the wrapper chain as written (closure variable `fn` is resolved through __closure__)
      return SF(fn=raw, self_val=self_val, defcls=c)
    return self.lift(raw)

  def rec_field(self, base, attr):
    rc = base.typ[1]
    vals = [self.lift(r[attr]) for r in rc.records]
    if not vals:
      raise TranslationError("record class %s has no records" % rc.name)
    if all(isinstance(v, SK) for v in vals):
      x = K(vals[-1].n)
      for i in reversed(range(len(vals) - 1)):
        x = Ite(Cmp("eq", base.x, K(i + 1)), K(vals[i].n), x)
      if all(v.n == vals[0].n for v in vals):
        return vals[0]
      return SE(x)
    if all(isinstance(v, SO) for v in vals):
      cls = vals[0].model.cls
      if not all(v.model.cls == cls for v in vals):
        raise TranslationError("field %s holds objects of different classes" % attr)
      x = K(self.sc.obj_index(vals[-1].model))
      for i in reversed(range(len(vals) - 1)):
        x = Ite(Cmp("eq", base.x, K(i + 1)), K(self.sc.obj_index(vals[i].model)), x)
      if all(v.model is vals[0].model for v in vals):
        return vals[0]
      return SE(x, ("obj", cls))
    if all(isinstance(v, SRec) for v in vals):
      rc2 = vals[0].rc
      x = K(vals[-1].rid)
      for i in reversed(range(len(vals) - 1)):
        x = Ite(Cmp("eq", base.x, K(i + 1)), K(vals[i].rid), x)
      return SE(x, ("rec", rc2))
    raise TranslationError("field %s of record class %s mixes kinds" % (attr, rc.name))

  def set_attr(self, base, attr, val):
    if isinstance(base, SP):
      obj = base.obj
      cur = obj.attrs.get(attr)
      if isinstance(cur, M.Model) and cur.cls == "attr" or (isinstance(cur, SO) and cur.model.cls == "attr"):
        model = cur if isinstance(cur, M.Model) else cur.model
        self.op(model, "store", [val], want=0)
        return
      if attr in self.sc.ignored_attr_stores:
        return
      if self.dyn > 0:
        raise TranslationError("attribute %s.%s assigned under dynamic control flow but not modelled as shared" % (obj.name, attr))
      obj.attrs[attr] = val
      return
    if attr in self.sc.ignored_attr_stores and isinstance(base, (SE, SO)):
      if isinstance(base, SO):
        self.sc.stored_attrs[(base.model.name, attr)] = val      # e.g. thread.name = uuid4(): remembered for a later read
      return
    if isinstance(base, SClass):
      bound = self.sc.class_attrs.get((base.cls, attr))
      if bound is not None and bound.cls == "attr":
        self.op(bound, "store", [val], want=0)
        return
      raise TranslationError("store to class attribute %s.%s, which the scenario does not model as shared state" % (base.cls.__name__, attr))
    raise TranslationError("attribute store on %r" % (base,))

  def container_model(self, v):
    if isinstance(v, SO):
      return v.model
    if isinstance(v, SP) and v.obj.model is not None:
      return v.obj.model
    return None

  def e_Subscript(self, e):
    base = self.expr(e.value)
    idx = self.expr(e.slice)
    if isinstance(base, ST):
      if not isinstance(idx, SK):
        raise TranslationError("dynamic index into a static tuple")
      return base.items[idx.py]
    model = self.container_model(base)
    if model is not None and model.cls == "deque":
      if not isinstance(idx, SK):
        raise TranslationError("dynamic deque index")
      return self.op(model, "getitem", [idx.py], typ=self.sc.deque_elem_typ(model))
    if model is not None and model.cls == "dict":
      return self.op(model, "getitem", [idx], typ=self.sc.value_typ.get(model.name, "int"))
    if isinstance(base, SSnap):
      x = K(0)
      ix = self.intx(idx)
      for j in reversed(range(len(base.cells))):
        x = Ite(Cmp("eq", ix, K(j)), V(base.cells[j]), x)
      return SE(x, base.typ)
    raise TranslationError("subscript of %r" % (base,))

  def e_Index(self, e):       # python < 3.9
    return self.expr(e.value)

  def e_UnaryOp(self, e):
    v = self.expr(e.operand)
    if isinstance(e.op, ast.Not):
      t = self.truthy(v)
      if isinstance(t, BK):
        return self.lift(not t.v)
      return SE(Not(t))
    if isinstance(e.op, ast.USub) and isinstance(v, SK) and isinstance(v.py, int):
      return SK(-v.py & ir.MASK, -v.py)
    raise TranslationError("unary operator")

  def binop(self, op, a, b):
    if isinstance(op, (ast.BitAnd, ast.BitOr)):
      # used on truth values only (result &= flag): python's & and | on bools
      ta, tb = self.truthy(a), self.truthy(b)
      if isinstance(ta, BK) and isinstance(tb, BK):
        return self.lift((ta.v and tb.v) if isinstance(op, ast.BitAnd) else (ta.v or tb.v))
      return SE(as_int(BoolOp("and" if isinstance(op, ast.BitAnd) else "or", [ta, tb])))
    if isinstance(op, ast.Add) and isinstance(a, SE) and isinstance(a.typ, tuple) and a.typ[0] == "listref" and isinstance(b, ST):
      # lst + [x]: a new list out of the live contents of lst (one C-level call)
      if len(b.items) != 1:
        raise TranslationError("list + a list display of %d elements" % len(b.items))
      return self.op(a.typ[1], "concat_new", [a, b.items[0]], typ=a.typ)
    name = {ast.Add: "add", ast.Sub: "sub"}.get(type(op))
    if name is None:
      raise TranslationError("binary operator %s" % type(op).__name__)
    if isinstance(a, SK) and isinstance(b, SK) and isinstance(a.py, int) and isinstance(b.py, int):
      return self.lift(a.py + b.py if name == "add" else a.py - b.py)
    return SE(Bin(name, as_int(self.intx(a)), as_int(self.intx(b))))

  def e_BinOp(self, e):
    return self.binop(e.op, self.expr(e.left), self.expr(e.right))

  def e_BoolOp(self, e):
    is_and = isinstance(e.op, ast.And)
    # short circuit: later operands may contain shared operations
    vals = []
    for i, sub in enumerate(e.values):
      snap = self.snapshot_state()
      v = self.expr(sub)
      t = self.truthy(v)
      emitted = len(self.prog.nodes) > snap[0]
      if isinstance(t, BK):
        if t.v != is_and:          # decides the result
          if not vals:
            return self.lift(t.v)
          vals.append(t)
          break
        continue
      if emitted and vals:
        # python would skip this operand's operations when the earlier operands decide: lower to control flow
        self.restore_state(snap)
        return self.boolop_cf(e.values[i:], vals, is_and)
      vals.append(t)
    if not vals:
      return self.lift(is_and)
    if len(vals) == 1:
      return SE(vals[0])
    return SE(BoolOp("and" if is_and else "or", vals))

  def snapshot_state(self):
    return (len(self.prog.nodes), list(self.dangling), self.ntemp, set(self.prog.locals), [(h[1], len(h[1])) for h in self.handlers if isinstance(h[1], list)],
            [(h[1], {k: len(v) for k, v in h[1].items()}) for h in self.handlers if isinstance(h[1], dict)])

  def restore_state(self, snap):
    n0, dangling, ntemp, locs, hl, hd = snap
    del self.prog.nodes[n0:]
    for (n, attr) in dangling:
      self._patch(n, attr, None)
    self.dangling = list(dangling)
    self.ntemp = ntemp
    for k in list(self.prog.locals):
      if k not in locs:
        del self.prog.locals[k]
    for lst, ln in hl:
      del lst[ln:]
    for d, lens in hd:
      for k in list(d):
        if k not in lens:
          del d[k]
        else:
          del d[k][lens[k]:]

  def boolop_cf(self, rest, vals, is_and):
    r = self.var("bool")
    first = vals[0] if len(vals) == 1 else BoolOp("and" if is_and else "or", vals)
    self.assign(r, as_int(first))
    ends = []
    self.dyn += 1
    for sub in rest:
      br = self._emit(ir.Branch(cond=Cmp("ne", V(r), K(0)), t=None, f=None))
      if is_and:
        ends.append((br, "f"))
        self.dangling = [(br, "t")]
      else:
        ends.append((br, "t"))
        self.dangling = [(br, "f")]
      v = self.expr(sub)
      t = self.truthy(v)
      self.assign(r, as_int(t))
    self.dyn -= 1
    self.dangling = self.dangling + ends
    self.label()
    return SE(Cmp("ne", V(r), K(0)))

  def e_Compare(self, e):
    if len(e.ops) != 1:
      raise TranslationError("chained comparison")
    a, b = self.expr(e.left), self.expr(e.comparators[0])
    op = e.ops[0]
    if isinstance(op, (ast.In, ast.NotIn)):
      res = self.contains(b, a)
      if isinstance(op, ast.NotIn):
        t = self.truthy(res)
        return self.lift(not t.v) if isinstance(t, BK) else SE(Not(t))
      return res
    neg = isinstance(op, (ast.IsNot, ast.NotEq))
    if isinstance(op, (ast.Is, ast.IsNot, ast.Eq, ast.NotEq)):
      if self.intlike(a) and self.intlike(b):
        if isinstance(a, SK) and isinstance(b, SK):
          same = (a.py == b.py) if isinstance(op, (ast.Eq, ast.NotEq)) else (a.py is b.py or (a.n == b.n and type(a.py) is type(b.py)))
          return self.lift(same != neg)
        return SE(Cmp("ne" if neg else "eq", self.intx(a), self.intx(b)))
      if self.intlike(a) != self.intlike(b):
        # an object compared with a number / None
        x, o = (a, b) if self.intlike(a) else (b, a)
        if isinstance(x, SK):
          return self.lift(neg)
        if isinstance(o, SO) and isinstance(x, SE) and isinstance(x.typ, tuple):
          return SE(Cmp("ne" if neg else "eq", x.x, K(self.sc.obj_index(o.model))))
        raise TranslationError("comparison of %r with %r" % (a, b))
      return self.lift(_same(a, b) != neg)
    cmpn = {ast.Lt: "lt", ast.LtE: "le", ast.Gt: "gt", ast.GtE: "ge"}.get(type(op))
    if cmpn is None:
      raise TranslationError("comparison operator")
    if isinstance(a, SK) and isinstance(b, SK):
      return self.lift({"lt": a.py < b.py, "le": a.py <= b.py, "gt": a.py > b.py, "ge": a.py >= b.py}[cmpn])
    return SE(Cmp(cmpn, self.intx(a), self.intx(b)))

  def contains(self, container, x):
    if isinstance(container, SDictView):
      if container.kind == "values":
        return self.op(container.model, "values_contains", [x])
      if container.kind == "keys":
        return self.op(container.model, "contains", [x])
    model = self.container_model(container)
    if model is not None and model.cls == "dict":
      return self.op(model, "contains", [x])
    if isinstance(container, SSnap):
      xi = self.intx(x)
      return SE(BoolOp("or", [BoolOp("and", [Cmp("lt", K(j), V(container.lenvar)), Cmp("eq", V(container.cells[j]), xi)]) for j in range(len(container.cells))]))
    if isinstance(container, SK) and isinstance(container.py, str) and isinstance(x, SK) and isinstance(x.py, str):
      return self.lift(x.py in container.py)
    if isinstance(container, ST) and isinstance(x, SK):
      return self.lift(any(isinstance(i, SK) and i.py == x.py for i in container.items))
    raise TranslationError("`in` on %r" % (container,))

  def e_IfExp(self, e):
    c = self.cond(e.test)
    if isinstance(c, BK):
      return self.expr(e.body if c.v else e.orelse)
    # lowered to control flow: either branch may perform shared operations, and only the chosen one runs
    r = self.var("ifexp")
    br = self._emit(ir.Branch(cond=c, t=None, f=None))
    self.dyn += 1
    self.dangling = [(br, "t")]
    a = self.expr(e.body)
    if not self.intlike(a):
      raise TranslationError("conditional expression over objects")
    self.assign(r, as_int(self.intx(a)))
    ends = list(self.dangling)
    self.dangling = [(br, "f")]
    b = self.expr(e.orelse)
    if not self.intlike(b):
      raise TranslationError("conditional expression over objects")
    self.assign(r, as_int(self.intx(b)))
    self.dyn -= 1
    self.dangling = ends + self.dangling
    self.label()
    return SE(V(r))

  def e_Tuple(self, e):
    return ST([self.expr(x) for x in e.elts])

  def e_List(self, e):
    return ST([self.expr(x) for x in e.elts])

  def e_Starred(self, e):
    return SStar(self.expr(e.value))

  def e_JoinedStr(self, e):
    return SK(self.sc.strings.code("<formatted>"), "<formatted>")

  def e_ListComp(self, e):
    # [x for x in <deque>] : an atomic snapshot (as list(deque) is in CPython)
    g = e.generators[0] if len(e.generators) == 1 else None
    plain = g is not None and not g.ifs and isinstance(g.target, ast.Name) and (
      (isinstance(e.elt, ast.Name) and e.elt.id == g.target.id) or
      (isinstance(e.elt, ast.Call) and isinstance(e.elt.func, ast.Name) and e.elt.func.id == "id" and len(e.elt.args) == 1
       and isinstance(e.elt.args[0], ast.Name) and e.elt.args[0].id == g.target.id))        # [id(x) for x in c]: objects are their numbers
    if plain:
      src = self.expr(g.iter)
      return self.snapshot(src)
    if g is not None and isinstance(g.target, ast.Name) and isinstance(e.elt, ast.Name) and e.elt.id == g.target.id and len(g.ifs) == 1:
      # [x for x in c if cond(x)]: walk the source one element at a time, keep those for which the condition holds
      src = self.snapshot(self.expr(g.iter))
      n = len(src.cells)
      out_len = self.var("flen")
      self.assign(out_len, K(0))
      out = [self.var("fcell") for _ in range(n)]
      for cv in out:
        self.assign(cv, K(0))
      fr = self.frames[-1]
      for j in range(n):
        saved = fr.env.get(g.target.id)
        fr.env[g.target.id] = SE(V(src.cells[j]), src.typ)
        c = self.cond(g.ifs[0])
        if saved is None:
          fr.env.pop(g.target.id, None)
        else:
          fr.env[g.target.id] = saved
        keep = BoolOp("and", [Cmp("lt", K(j), V(src.lenvar)), c])
        for k2, cv in enumerate(out):
          self.assign(cv, Ite(BoolOp("and", [keep, Cmp("eq", V(out_len), K(k2))]), V(src.cells[j]), V(cv)))
        self.assign(out_len, Ite(keep, Bin("add", V(out_len), K(1)), V(out_len)))
      return SSnap(out_len, out, src.typ)
    raise TranslationError("list comprehension other than [x for x in container]")

  def snapshot(self, src):
    model = self.container_model(src)
    if isinstance(src, SDictView):
      model = src.model
      if src.kind == "items":
        dsts = self.op(model, "snapshot_items", [], want=2 * model.n + 1)
        return SSnap2(dsts[0], dsts[1:model.n + 1], dsts[model.n + 1:], self.sc.dict_key_typ(model))
      dsts = self.op(model, "snapshot_" + src.kind, [], want=model.n + 1)
      return SSnap(dsts[0], dsts[1:], self.sc.dict_key_typ(model) if src.kind == "keys" else "int")
    if isinstance(src, SSnap2):
      return src
    if model is not None and model.cls == "deque":
      dsts = self.op(model, "snapshot", [], want=model.maxlen + 1)
      return SSnap(dsts[0], dsts[1:], self.sc.deque_elem_typ(model))
    if isinstance(src, SSnap):
      return src
    if isinstance(src, SE) and isinstance(src.typ, tuple) and src.typ[0] == "listref":
      # a comprehension / list() over a python list advances a list iterator one bytecode at a time: stepwise, into local cells
      lists = src.typ[1]
      lref = self.var("listref")
      self.assign(lref, src.x)
      cells = [self.var("snapcell") for _ in range(lists.cells)]
      for cvar in cells:
        self.assign(cvar, K(0))
      iv = self.var("i")
      self.assign(iv, K(0))
      head = self.label()
      self.dyn += 1
      stop_edges = []
      self.handlers.append((("StopIteration",), stop_edges))
      item = self.op(lists, "iter_next", [SE(V(lref)), SE(V(iv))])
      self.handlers.pop()
      for j, cvar in enumerate(cells):
        self.assign(cvar, Ite(Cmp("eq", V(iv), K(j)), item.x, V(cvar)))
      self.assign(iv, Bin("add", V(iv), K(1)))
      self.patch_to(self.dangling, head.id)
      self.dyn -= 1
      self.dangling = stop_edges
      self.label()
      return SSnap(iv, cells, self.sc.elem_typ.get(lists.name, "int"))
    raise TranslationError("snapshot of %r" % (src,))

  def next_of_generator(self, e):
    """next(<elt> for <target> in <iter> if <cond>...)[, default]: lowered to the loop it abbreviates - the first element that passes the
    conditions; StopIteration (or the default) when there is none"""
    g = e.args[0]
    if len(g.generators) != 1 or g.generators[0].is_async:
      raise TranslationError("next() of a generator expression with several for clauses")
    gen = g.generators[0]
    self.ntemp += 1
    tmp, found = "_vf_next_value_%d" % self.ntemp, "_vf_next_found_%d" % self.ntemp
    has_default = len(e.args) > 1

    def name(n, store=False):
      return ast.Name(id=n, ctx=ast.Store() if store else ast.Load())
    test = gen.ifs[0] if len(gen.ifs) == 1 else (ast.BoolOp(op=ast.And(), values=list(gen.ifs)) if gen.ifs else ast.Constant(value=True))
    body = [ast.If(test=test, body=[ast.Assign(targets=[name(tmp, True)], value=g.elt), ast.Assign(targets=[name(found, True)], value=ast.Constant(value=True)),
                                    ast.Break()], orelse=[])]
    stmts = [ast.Assign(targets=[name(tmp, True)], value=e.args[1] if has_default else ast.Constant(value=None)),
             ast.Assign(targets=[name(found, True)], value=ast.Constant(value=False)),
             ast.For(target=gen.target, iter=gen.iter, body=body, orelse=[])]
    if not has_default:
      stmts.append(ast.If(test=ast.UnaryOp(op=ast.Not(), operand=name(found)), body=[ast.Raise(exc=name("StopIteration"), cause=None)], orelse=[]))
    for st in stmts:
      ast.copy_location(st, e)
      ast.fix_missing_locations(st)
    self.block(stmts)
    return self.expr(name(tmp))

  def e_Call(self, e):
    if isinstance(e.func, ast.Name) and e.func.id == "next" and e.args and isinstance(e.args[0], ast.GeneratorExp) and not e.keywords:
      return self.next_of_generator(e)
    f = self.expr(e.func)
    args = [self.expr(a) for a in e.args]
    kwargs = {}
    for k in e.keywords:
      if k.arg is None:
        v = self.expr(k.value)
        if not isinstance(v, SKw):
          raise TranslationError("**%r" % (v,))
        kwargs.update(v.d)
      else:
        kwargs[k.arg] = self.expr(k.value)
    return self.call(f, args, kwargs)

  def call(self, f, args, kwargs):
    if isinstance(f, SI):
      return f.fn(self, args, kwargs)
    if isinstance(f, SF):
      return self.call_function(f, args, kwargs)
    if isinstance(f, SM):
      return self.model_call(f, args, kwargs)
    if isinstance(f, SRec) or isinstance(f, SClass):
      key = f.cls if isinstance(f, SClass) else None
      for k, v in self.sc.class_intrinsics:
        if k is key:
          return v(self, args, kwargs)
      if key is not None and key in self.sc.constructible:
        # an ordinary object made on the translated path: its __init__ is translated with a fresh composite object as self
        n = self.sc.constructed.setdefault(key, [])
        obj = PyObj(key, {}, "%s#%d" % (key.__name__, len(n)))
        n.append(obj)
        c, raw = self.find_method(key, "__init__")
        if raw is not None and isinstance(raw, types.FunctionType):
          self.call_function(SF(fn=raw, self_val=SP(obj), defcls=c), args, kwargs)
        return SP(obj)
      raise TranslationError("construction of %r is not modelled" % (f.cls,))
    if isinstance(f, SP):
      c, raw = self.find_method(f.obj.cls, "__call__")
      if raw is not None:
        return self.call_function(SF(fn=raw, self_val=f, defcls=c), args, kwargs)
    raise TranslationError("call of %r (%s)" % (f, self.cur_src))

  def model_call(self, f, args, kwargs):
    target, name = f.target, f.name
    cls = target.cls if isinstance(target, M.Model) else target[0]
    # normalise signatures
    if cls == "Queue":
      if name in ("get", "put"):
        rest = args[1:] if name == "put" else args
        blk = kwargs.get("block", rest[0] if len(rest) > 0 else SK(1, True))
        tmo = kwargs.get("timeout", rest[1] if len(rest) > 1 else SK(NONE, None))
        if not (isinstance(blk, SK) and isinstance(tmo, SK)):
          raise TranslationError("Queue.%s with dynamic block/timeout" % name)
        if tmo.py is not None:
          raise TranslationError("Queue.%s with a timeout" % name)
        if not blk.py:
          name = name + "_nowait"
        args = args[:1] if name.startswith("put") else []
      want = 1 if name in ("get", "get_nowait", "full", "empty", "qsize") else 0
      return self.op(target, name, args if name.startswith("put") else [], want=want)
    if cls == "PriorityQueue":
      if name == "put":
        return self.op(target, "put", args[:1], want=0)
      if name == "get":
        return self.op(target, "get", [], typ=self.sc.elem_typ.get(target.name, "int"))
      if name == "task_done":
        return self.op(target, "task_done", [], want=0)
    if cls == "deque":
      if name in ("append", "appendleft"):
        return self.op(target, name, args, want=0)
      if name in ("pop", "popleft"):
        return self.op(target, name, [], typ=self.sc.deque_elem_typ(target))
      if name == "rotate":
        if not isinstance(args[0], SK):
          raise TranslationError("rotate by a dynamic amount")
        return self.op(target, "rotate", [args[0].py], want=0)
      if name == "clear":
        return self.op(target, "clear", [], want=0)
    if cls == "Event":
      if name == "is_set":
        return self.op(target, "is_set", [])
      if name in ("set", "clear"):
        return self.op(target, name, [], want=0)
      if name == "wait" and not args and not kwargs:
        return self.op(target, "wait", [], want=0)       # blocks until the flag is up
    if cls == "RLock":
      if name == "acquire":
        return self.op(target, "acquire", [])
      if name == "release":
        return self.op(target, "release", [], want=0)
    if cls == "Thread":
      if name in ("start", "join"):
        return self.op(target, name, [], want=0)
      if name == "is_alive":
        return self.op(target, name, [])
    if cls == "dict":
      if name == "get":
        d = args[1] if len(args) > 1 else SK(NONE, None)
        vt = self.sc.value_typ.get(target.name)
        if isinstance(vt, tuple) and vt[0] == "listref":
          if isinstance(d, ST) and not d.items:
            d = SK(0, 0)              # an empty tuple / list as default: list number 0, the empty sequence
          return self.op(target, "get_default", [args[0], d], typ=vt)
        return self.op(target, "get_default", [args[0], d])
      if name == "clear":
        return self.op(target, "clear", [], want=0)
    if cls == "sleep":
      return self.op(target, "sleep", [], want=0)
    if cls == "alloc":
      return self.op(target, "new", [])
    raise TranslationError("method %s of model %s" % (name, cls))

  # ---- builtins ----------------------------------------------------------------------------------------------------
  def b_next(self, comp, args, kwargs):
    v = args[0]
    if isinstance(v, SO) and v.model.cls == "counter" and len(args) == 1:
      return self.op(v.model, "take", [])
    raise TranslationError("next() of %r" % (v,))

  def b_len(self, comp, args, kwargs):
    v = args[0]
    model = self.container_model(v)
    if isinstance(v, SO) or (isinstance(v, SP) and v.obj.model is not None and self.find_method(v.obj.cls, "__len__")[0] in (None, dict) ):
      return self.op(model, "__len__", [])
    if isinstance(v, SP):
      c, raw = self.find_method(v.obj.cls, "__len__")
      if raw is not None and isinstance(raw, types.FunctionType):
        return self.call_function(SF(fn=raw, self_val=v, defcls=c), [], {})
      if v.obj.model is not None:
        return self.op(v.obj.model, "__len__", [])
    if isinstance(v, SSnap):
      return SE(V(v.lenvar))
    if isinstance(v, ST):
      return self.lift(len(v.items))
    if isinstance(v, SE) and isinstance(v.typ, tuple) and v.typ[0] == "listref":
      return self.op(v.typ[1], "__len__", [v])
    raise TranslationError("len(%r)" % (v,))

  def b_isinstance(self, comp, args, kwargs):
    v, c = args
    if isinstance(v, SP) and isinstance(c, SClass):
      return self.lift(issubclass(v.obj.cls, c.cls))
    if isinstance(v, SO) and isinstance(c, SClass):
      return self.lift(c.cls.__name__.lower() == v.model.cls.lower())
    if isinstance(c, SI) and c.name in ("str", "int", "bool", "list"):
      c = SClass({"str": str, "int": int, "bool": bool, "list": list}[c.name])
    if isinstance(v, SK) and isinstance(c, SClass):
      return self.lift(isinstance(v.py, c.cls))
    if isinstance(v, SE) and isinstance(c, SClass) and isinstance(v.typ, tuple) and v.typ[0] == "obj":
      # a reference to one of the modelled objects of a class: plain deques are not LockingDeques, and so on
      return self.lift(c.cls.__name__.lower() == str(v.typ[1]).lower())
    if isinstance(v, SE) and isinstance(c, SClass):
      if c.cls is str:
        return self.lift(v.typ == "str")
      if c.cls is int:
        return self.lift(v.typ == "int")
    raise TranslationError("isinstance(%r, %r)" % (v, c))

  def b_str(self, comp, args, kwargs):
    v = args[0]
    if isinstance(v, SK):
      return self.lift(str(v.py)) if not isinstance(v.py, str) else v
    if isinstance(v, SE) and v.typ == "str":
      return v
    raise TranslationError("str(%r)" % (v,))

  def b_super(self, comp, args, kwargs):
    fr = self.frames[-1]
    return SSuper(fr.self_val if fr.self_val is not None else fr.env.get("self"), fr.defcls)

  def b_list(self, comp, args, kwargs):
    return self.snapshot(args[0])

  def b_type(self, comp, args, kwargs):
    v = args[0]
    if isinstance(v, SK):
      return SClass(type(v.py))
    rc = v.rc if isinstance(v, SRec) else (v.typ[1] if isinstance(v, SE) and isinstance(v.typ, tuple) and v.typ[0] == "rec" else None)
    if rc is not None and rc.name in self.sc.record_pyclass:
      return SClass(self.sc.record_pyclass[rc.name])
    if isinstance(v, SE) and v.typ == "int":
      return SClass(int)
    raise TranslationError("type(%r)" % (v,))

  def b_id(self, comp, args, kwargs):
    return SE(self.intx(args[0]))

  def b_print(self, comp, args, kwargs):
    return SK(NONE, None)

  def b_int(self, comp, args, kwargs):
    return args[0]

  def b_bool(self, comp, args, kwargs):
    t = self.truthy(args[0])
    return self.lift(t.v) if isinstance(t, BK) else SE(t)

  def b_reversed(self, comp, args, kwargs):
    raise TranslationError("reversed() outside a for header")

  def b_range(self, comp, args, kwargs):
    raise TranslationError("range() outside a for header")

  # ---- entry ---------------------------------------------------------------------------------------------------------------
  def run_call(self, sf, args, kwargs=None, ghost_after=None):
    """compile `sf(*args)` as the body of this thread"""
    res = self.call_function(sf, args, kwargs or {})
    return res

  def finish(self):
    if self.dangling:
      self._emit(ir.End(kind="done"))
      self.dangling = []
    crash = {}
    for n in list(self.prog.nodes):
      if isinstance(n, ir.Op):
        for exname, tgt in list(n.exc.items()):
          if tgt is None:
            if exname not in crash:
              self.dangling = []
              crash[exname] = self._emit(ir.End(kind="crashed:" + exname)).id
              self.dangling = []
            n.exc[exname] = crash[exname]
    for n in self.prog.nodes:
      for attr in ("next", "t", "f"):
        if hasattr(n, attr) and getattr(n, attr) is None and not isinstance(n, ir.End) and (attr == "next") != isinstance(n, ir.Branch):
          raise TranslationError("dangling edge %s of node %d (%s)" % (attr, n.id, type(n).__name__))
    return self.prog

  def ghost(self, fn, label="ghost", uses=()):
    names = set()
    for u in uses:
      ir.expr_vars(u, names)
    self._emit(ir.Ghost(fn=fn, label=label, uses=names))
