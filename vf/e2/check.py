"""Glue between scenarios, BMC queries, concrete re-execution and forced-schedule replay; runs queries in worker processes."""
import json
import os
import time
import traceback
from concurrent.futures import ProcessPoolExecutor

from vf.e2 import ir, machine, bmc
from vf.e2.front import TranslationError


def build(scn_name, kwargs):
  from vf.e2 import scenarios
  sc = getattr(scenarios, scn_name)(**kwargs)
  sysm = machine.System(sc)
  return sc, sysm


def source_digest(sysm):
  """qualified names and a hash of the source of every function translated (regenerated from /repo on every run)"""
  import hashlib
  import importlib
  import inspect
  out = {}
  for p in sysm.programs:
    for q in p.sources:
      if q.startswith("scenario."):
        out[q] = "scenario driver"
        continue
      if q in out:
        continue
      try:
        modname, rest = q.split(".", 2)[0:2], None
        parts = q.split(".")
        obj = None
        for i in range(len(parts), 0, -1):
          try:
            obj = importlib.import_module(".".join(parts[:i]))
            for a in parts[i:]:
              if a == "<locals>":
                raise AttributeError
              obj = getattr(obj, a)
            break
          except (ImportError, AttributeError):
            obj = None
        src = inspect.getsource(obj) if obj is not None else q
        out[q] = hashlib.sha1(src.encode()).hexdigest()[:12]
      except Exception:
        out[q] = "nested function (source is part of its enclosing function)"
  return out


def concretize(sysm, res):
  """re-execute the solver's schedule on the concrete interpreter: returns (states, visible step triples, step infos)"""
  sched = [s["tid"] for s in res["steps"]]
  inputs = {k: v for k, v in res["inputs"].items()}
  st = sysm.initial(inputs)
  states = [dict(st)]
  infos = []
  for tid in sched:
    r = sysm.step_concrete(st, tid)
    if r is None:
      raise TranslationError("the solver's schedule is not executable on the concrete interpreter (thread %d not enabled)" % tid)
    st, info = r
    states.append(dict(st))
    infos.append(info)
  return states, infos


def triples(infos):
  return [(i["tid"], i["target"], i["op"]) for i in infos if i["op"] != "<begin>"]


def find_loop(states, start_hint=None):
  """indices (i, j), i < j, of the first repeated state at or after start_hint"""
  lo = start_hint or 0
  for i in range(lo, len(states)):
    for j in range(i + 1, len(states)):
      if states[i] == states[j]:
        return i, j
  return None


def run_query(spec):
  """worker: spec = {scenario, kwargs, kind, K, pred, timeout, replay}; returns a json-able dict"""
  t0 = time.time()
  out = dict(spec)
  try:
    sc, sysm = build(spec["scenario"], spec["kwargs"])
    enc = bmc.Encoding(sysm)
    from vf.e2 import preds
    pred = getattr(preds, spec["pred"])(sc, sysm) if spec.get("pred") else None
    kind = spec["kind"]
    K = spec["K"]
    to = spec.get("timeout", 600)
    if kind == "safety":
      r = bmc.q_safety(enc, K, pred, sc.sym_inputs, to)
    elif kind == "reach":
      r = bmc.q_reach(enc, K, pred, sc.sym_inputs, to)
    elif kind == "deadlock":
      r = bmc.q_deadlock(enc, K, pred, sc.sym_inputs, to)
    elif kind == "lasso":
      r = bmc.q_lasso(enc, K, pred, sc.sym_inputs, to)
    elif kind == "adequacy":
      r = bmc.q_adequacy(enc, K, sc.sym_inputs, to)
    else:
      raise ValueError(kind)
    out.update(r)
    out["vars"] = len(sysm.vars)
    out["transitions"] = enc.n_transitions
    out["locations"] = sum(len(v) for v in sysm.stable.values())
    out["solver"] = dict(bmc.STATS["answers_by"])
    if r["result"] == "sat" and kind != "adequacy":
      states, infos = concretize(sysm, r)
      out["concrete_steps"] = len(infos)
      # the predicate must hold on the concrete re-execution as well (guards the encoding)
      ok = None
      if pred is not None and kind in ("safety", "reach"):
        ok = any(bool(pred(ir.ConcreteB, s)) for s in states)
      elif pred is not None and kind == "deadlock":
        ok = any((not sysm.enabled_concrete(s)) and bool(pred(ir.ConcreteB, s)) for s in states)
      elif kind == "lasso":
        lp = find_loop(states)
        ok = lp is not None and bool(pred(ir.ConcreteB, states[lp[1]]))
        out["loop"] = list(lp) if lp else None
      out["concrete_confirms"] = ok
      out["ghost"] = {k: v for k, v in states[-1].items() if k.startswith("g.")}
      out["trace"] = ["%s: %s.%s%s" % (sysm.prog(i["tid"]).name, i["target"], i["op"], "" if i["outcome"] in (None, "ok") else " -> " + i["outcome"])
                      for i in infos if i["op"] != "<begin>"]
      if spec.get("replay") and ok:
        from vf.e2 import harness
        rep = None
        for attempt in range(3):       # real threads under a loaded machine: a turn that is not taken in time is retried, never reported
          rep = getattr(harness, spec["replay"])(sc, sysm, r, states, infos, out.get("loop"))
          if rep.get("matched"):
            break
        rep["attempts"] = attempt + 1
        out["replay"] = rep
      out.pop("steps", None)
      out["inputs"] = {k: v for k, v in r["inputs"].items() if k.startswith("in.")}
    else:
      out.pop("steps", None)
      out.pop("inputs", None)
  except TranslationError as ex:
    out["result"] = "translation-error"
    out["error"] = str(ex)
  except Exception:
    out["result"] = "error"
    out["error"] = traceback.format_exc()[-1500:]
  out["wall_s"] = round(time.time() - t0, 2)
  return out


def run_all(specs, jobs=None):
  jobs = jobs or max(1, int(os.environ.get("VERIF_JOBS", "16")) // 3)
  with ProcessPoolExecutor(max_workers=jobs) as ex:
    return list(ex.map(run_query, specs))
