"""Bounded model checking of a System over all schedules: the transition relation is built once over template variables
from the same step semantics the concrete interpreter uses (machine.alternatives with the z3 back end), then unrolled K times.

Queries (all QF_BV):
  safety     exists schedule, inputs, i <= K: bad(state_i)
  deadlock   exists i <= K: no thread enabled at state_i and pred(state_i)
  lasso      a fair cycle (strong fairness: every thread ran in the cycle or was disabled at every state of it) with pred
  adequacy   exists a run of exactly K non-stutter steps (sat => behaviours longer than K exist; the claim is limited to K steps)
"""
import time
import z3

from vf.e2 import ir
from vf.e2.ir import W

PCW = 10


class Encoding:
  def __init__(self, system):
    self.sys = system
    self.nthreads = len(system.programs)
    self.SW = max(2, (self.nthreads + 1).bit_length())
    self.STUTTER = self.nthreads
    self.cur = {v: self.mk(v, "cur") for v in system.vars}
    self.sched = z3.BitVec("sched@cur", self.SW)
    t0 = time.time()
    self.build()
    self.build_s = time.time() - t0

  def width(self, v):
    return PCW if v.startswith("pc.") else W

  def mk(self, v, tag):
    return z3.BitVec("%s@%s" % (v, tag), self.width(v))

  def build(self):
    """next-state functions and enabledness over the template variables"""
    B = ir.Z3B
    sysm = self.sys
    st = dict(self.cur)
    chains = {v: [] for v in sysm.vars}       # v -> [(selector, new value)]
    self.enabled = {}
    self.n_transitions = 0
    fired = []
    for p in sysm.programs:
      pcv = "pc.%d" % p.tid
      en_t = []
      for l in sysm.stable[p.tid]:
        at = self.cur[pcv] == z3.BitVecVal(l, PCW)
        for (g, pc2, st2, info) in sysm.alternatives(B, st, p.tid, l):
          g = z3.simplify(g) if not isinstance(g, bool) else z3.BoolVal(g)
          if z3.is_false(g):
            continue
          self.n_transitions += 1
          en_t.append(z3.And(at, g))
          sel = z3.And(self.sched == p.tid, at, g)
          fired.append(sel)
          chains[pcv].append((sel, z3.BitVecVal(pc2, PCW)))
          for v, val in st2.items():
            if v == pcv:
              continue
            if val is not st[v]:
              chains[v].append((sel, val))
      self.enabled[p.tid] = z3.Or(en_t) if en_t else z3.BoolVal(False)
    self.nxt = {}
    for v in sysm.vars:
      e = self.cur[v]
      for (sel, val) in reversed(chains[v]):
        e = z3.If(sel, val, e)
      self.nxt[v] = e
    self.fired = z3.Or(fired) if fired else z3.BoolVal(False)
    self.step_ok = z3.Or(self.sched == self.STUTTER, self.fired)

  # ---- unrolling ---------------------------------------------------------------------------------------
  def unroll(self, K, sym_inputs=None):
    """returns (solver-ready constraints list, states list of dicts, sched list)"""
    S = [{v: self.mk(v, str(i)) for v in self.sys.vars} for i in range(K + 1)]
    sched = [z3.BitVec("sched@%d" % i, self.SW) for i in range(K)]
    cons = []
    sym_inputs = sym_inputs or {}
    for v, val in self.sys.init.items():
      if v in sym_inputs:
        lo, hi = sym_inputs[v]
        cons.append(z3.And(z3.UGE(S[0][v], lo), z3.ULE(S[0][v], hi)))
      else:
        cons.append(S[0][v] == z3.BitVecVal(val, self.width(v)))
    for i in range(K):
      sub = [(self.cur[v], S[i][v]) for v in self.sys.vars] + [(self.sched, sched[i])]
      cons.append(z3.substitute(self.step_ok, *sub))
      for v in self.sys.vars:
        cons.append(S[i + 1][v] == z3.substitute(self.nxt[v], *sub))
    return cons, S, sched

  def at(self, formula, Si, sched_i=None):
    sub = [(self.cur[v], Si[v]) for v in self.sys.vars]
    if sched_i is not None:
      sub.append((self.sched, sched_i))
    return z3.substitute(formula, *sub)

  def pred(self, fn, Si):
    """fn(B, st) -> z3 bool, evaluated on state Si"""
    return fn(ir.Z3B, Si)


SOLVERS = [
  ("z3-4.8.12", ["/usr/bin/z3"]),
  ("z3-4.8.12/seed1", ["/usr/bin/z3", "sat.random_seed=1", "smt.random_seed=1"]),
  ("z3-4.8.12/seed2", ["/usr/bin/z3", "sat.random_seed=2", "smt.random_seed=2"]),
  ("z3-5.1.0", ["z3-new"]),
  ("cvc5-1.0.3", ["cvc5", "--produce-models"]),
]
STATS = {"queries": 0, "solver_seconds": 0.0, "answers_by": {}, "disagreements": []}


class ModelValues:
  """values of the requested constants, parsed from a solver's (get-value ...) answer"""

  def __init__(self, vals):
    self.vals = vals

  def eval(self, const, model_completion=True):
    return _Val(self.vals.get(str(const), 0))


class _Val:
  def __init__(self, n):
    self.n = n

  def as_long(self):
    return self.n


def _parse_values(text):
  import re
  vals = {}
  for name, lit in re.findall(r"\(\|?([^\s()|]+)\|?\s+(#b[01]+|#x[0-9a-fA-F]+|true|false)\)", text):
    if lit.startswith("#b"):
      vals[name] = int(lit[2:], 2)
    elif lit.startswith("#x"):
      vals[name] = int(lit[2:], 16)
    else:
      vals[name] = 1 if lit == "true" else 0
  return vals


def solve(cons, timeout_s, want=(), nproc=None):
  """portfolio over the installed solver binaries (measured: the same lasso query takes 5-30 s with z3 4.8.12 depending on the seed,
  85 s with cvc5 1.0.3, 120-200 s with z3 5.1.0); the first definite answer wins, the others are stopped.  Any '(error' in a
  solver's output makes that solver's answer unusable."""
  import os
  import subprocess
  import tempfile
  s = z3.Solver()
  s.add(*cons)
  text = "(set-logic QF_BV)\n(set-option :produce-models true)\n" + s.to_smt2().replace("(set-info :status unknown)", "")
  names = [str(w) for w in want]
  if names:
    text += "\n(get-value (%s))\n" % " ".join(names)
  fd, path = tempfile.mkstemp(prefix="vfe2_", suffix=".smt2")
  with os.fdopen(fd, "w") as f:
    f.write(text)
  nproc = nproc or int(os.environ.get("VERIF_E2_PORTFOLIO", "3"))
  procs = []
  t0 = time.time()
  try:
    for name, cmd in SOLVERS[:nproc]:
      try:
        procs.append((name, subprocess.Popen(cmd + [path], stdout=subprocess.PIPE, stderr=subprocess.STDOUT)))
      except OSError:
        pass
    result, model, by = "unknown", None, None
    pending = list(procs)
    while pending and time.time() - t0 < timeout_s:
      for (name, p) in list(pending):
        if p.poll() is None:
          continue
        pending.remove((name, p))
        out = p.stdout.read().decode(errors="replace")
        first = out.strip().splitlines()[0].strip() if out.strip() else ""
        # the answer is the first line: an error about an assertion would precede it; after `unsat` the get-value
        # command legitimately fails
        if first == "unsat" or (first == "sat" and "(error" not in out):
          if result in ("sat", "unsat") and result != first:
            STATS["disagreements"].append((by, result, name, first))
            result = "unknown"
            break
          if result == "unknown":
            result, by = first, name
            model = ModelValues(_parse_values(out)) if first == "sat" else None
      if result in ("sat", "unsat"):
        break
      time.sleep(0.05)
  finally:
    for (name, p) in procs:
      if p.poll() is None:
        p.kill()
      try:
        p.wait(timeout=5)
      except Exception:
        pass
    try:
      os.unlink(path)
    except OSError:
      pass
  dt = time.time() - t0
  STATS["queries"] += 1
  STATS["solver_seconds"] += dt
  if by:
    STATS["answers_by"][by] = STATS["answers_by"].get(by, 0) + 1
  return result, model, dt


def decode(enc, model, S, sched, K):
  """schedule and per-step description from a model"""
  sysm = enc.sys
  steps = []
  for i in range(K):
    t = model.eval(sched[i], model_completion=True).as_long()
    if t >= enc.nthreads:
      continue
    pc = model.eval(S[i]["pc.%d" % t], model_completion=True).as_long()
    steps.append({"step": i, "tid": t, "thread": sysm.prog(t).name, "pc": pc, "what": sysm.describe(t, pc)})
  inputs = {}
  for v in sysm.vars:
    inputs[v] = model.eval(S[0][v], model_completion=True).as_long()
  return steps, inputs


def wanted(enc, S, sched):
  return list(sched) + [S[i]["pc.%d" % p.tid] for i in range(len(S)) for p in enc.sys.programs] + [S[0][v] for v in enc.sys.vars]


def q_safety(enc, K, bad, sym_inputs=None, timeout_s=600):
  cons, S, sched = enc.unroll(K, sym_inputs)
  cons.append(z3.Or([enc.pred(bad, S[i]) for i in range(K + 1)]))
  r, m, dt = solve(cons, timeout_s, wanted(enc, S, sched))
  out = {"query": "safety", "K": K, "result": r, "seconds": round(dt, 2)}
  if m is not None:
    out["steps"], out["inputs"] = decode(enc, m, S, sched, K)
  return out


def q_deadlock(enc, K, pred, sym_inputs=None, timeout_s=600):
  cons, S, sched = enc.unroll(K, sym_inputs)
  dead = []
  for i in range(K + 1):
    none = z3.And([z3.Not(enc.at(enc.enabled[p.tid], S[i])) for p in enc.sys.programs])
    dead.append(z3.And(none, enc.pred(pred, S[i])))
  cons.append(z3.Or(dead))
  r, m, dt = solve(cons, timeout_s, wanted(enc, S, sched))
  out = {"query": "deadlock", "K": K, "result": r, "seconds": round(dt, 2)}
  if m is not None:
    out["steps"], out["inputs"] = decode(enc, m, S, sched, K)
  return out


def q_lasso(enc, K, pred, sym_inputs=None, timeout_s=600, ignore=()):
  """fair cycle closed at some step <= K: saved state (loop entry) == state at the closing step, at least one real step in
  the loop, every thread ran in the loop or was disabled at every state of the loop, pred holds at the closing state.
  `ignore`: state variables left out of the state comparison (must not influence behaviour: dead temporaries)"""
  cons, S, sched = enc.unroll(K, sym_inputs)
  nt = enc.nthreads
  vars_cmp = [v for v in enc.sys.vars if v not in ignore]
  saved = {v: enc.mk(v, "saved") for v in vars_cmp}
  inl = [z3.Bool("inl@%d" % i) for i in range(K + 1)]
  ran = [[z3.Bool("ran@%d@%d" % (t, i)) for i in range(K + 1)] for t in range(nt)]
  dis = [[z3.Bool("dis@%d@%d" % (t, i)) for i in range(K + 1)] for t in range(nt)]
  cons.append(z3.Not(inl[0]))
  for t in range(nt):
    cons.append(z3.Not(ran[t][0]))
    cons.append(dis[t][0])
  for i in range(K):
    cons.append(z3.Implies(inl[i], inl[i + 1]))
    enter = z3.And(z3.Not(inl[i]), inl[i + 1])
    cons.append(z3.Implies(enter, z3.And([saved[v] == S[i][v] for v in vars_cmp])))
    # no stutter inside the loop
    cons.append(z3.Implies(inl[i + 1], sched[i] != enc.STUTTER))
    for t in range(nt):
      en = enc.at(enc.enabled[t], S[i])
      cons.append(ran[t][i + 1] == z3.Or(ran[t][i], z3.And(inl[i + 1], sched[i] == t)))
      cons.append(dis[t][i + 1] == z3.And(dis[t][i], z3.Or(z3.Not(inl[i + 1]), z3.Not(en))))
  closes = []
  for i in range(1, K + 1):
    closes.append(z3.And(inl[i], z3.And([saved[v] == S[i][v] for v in vars_cmp]),
                         z3.And([z3.Or(ran[t][i], dis[t][i]) for t in range(nt)]),
                         z3.Or([ran[t][i] for t in range(nt)]),
                         enc.pred(pred, S[i])))
  cons.append(z3.Or(closes))
  r, m, dt = solve(cons, timeout_s, wanted(enc, S, sched) + inl)
  out = {"query": "lasso", "K": K, "result": r, "seconds": round(dt, 2)}
  if m is not None:
    out["steps"], out["inputs"] = decode(enc, m, S, sched, K)
    start = None
    for i in range(K + 1):
      if m.eval(inl[i]).as_long():
        start = i - 1
        break
    out["loop_start"] = start
  return out


def q_adequacy(enc, K, sym_inputs=None, timeout_s=600):
  cons, S, sched = enc.unroll(K, sym_inputs)
  for i in range(K):
    cons.append(sched[i] != enc.STUTTER)
  r, m, dt = solve(cons, timeout_s)
  return {"query": "adequacy", "K": K, "result": r, "seconds": round(dt, 2),
          "meaning": "sat: some behaviour takes more than K steps (claim limited to the first K steps); unsat: K covers every behaviour"}


def q_reach(enc, K, pred, sym_inputs=None, timeout_s=600):
  """vacuity guard: pred reachable within K"""
  out = q_safety(enc, K, pred, sym_inputs, timeout_s)
  out["query"] = "reachability"
  return out
