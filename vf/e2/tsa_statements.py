"""The statements of the C27 scenario as real source lines: the real ThreadSafeAttribute reads the source line of its caller
with inspect, so replay needs real lines; the model takes the same text from here.  One function per (kind, thread)."""


def read_0(o):
  v = o.x
  return v


def read_1(o):
  v = o.x
  return v


def read_2(o):
  v = o.x
  return v


def assign_0(o):
  o.x = 9


def assign_1(o):
  o.x = 10


def assign_2(o):
  o.x = 12


def aug_0(o):
  o.x += 1


def aug_1(o):
  o.x += 2


def aug_2(o):
  o.x += 4
