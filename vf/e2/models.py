"""Model objects: the environment of the translated kernels, each with the documented contract of the thing it stands for.
A single C-level call on queue.Queue / deque / Event / RLock / dict is one indivisible step (queue.Queue has its own mutex; the
others are GIL-atomic).  `apply` returns the possible outcomes of one operation as a list of
(condition, kind, result, updates): kind 'ok' or 'exc:<Name>'; if no condition holds the operation blocks (thread not enabled).
The same code runs on python ints (concrete interpreter) and on z3 bit-vectors (BMC)."""
from vf.e2.ir import NONE


class Model:
  cls = "model"

  def __init__(self, name):
    self.name = name

  def v(self, field):
    return "%s.%s" % (self.name, field)

  def init(self):
    return {}

  def static_attr(self, attr):
    raise KeyError(attr)


class MQueue(Model):
  """queue.Queue(maxsize) used as a token queue: only the number of items matters"""
  cls = "Queue"
  TOKEN = 1

  def __init__(self, name, maxsize, count=0, unfinished=None):
    super().__init__(name)
    self.maxsize = maxsize
    self.count0 = count
    self.unf0 = count if unfinished is None else unfinished

  def init(self):
    return {self.v("cnt"): self.count0, self.v("unf"): self.unf0}

  def static_attr(self, attr):
    if attr == "maxsize":
      return self.maxsize
    raise KeyError(attr)

  def apply(self, B, st, op, args, tid):
    cnt, unf = st[self.v("cnt")], st[self.v("unf")]
    mx = B.const(self.maxsize)
    one = B.const(1)
    T = B.true()
    if op == "put":          # blocking put
      return [(B.ult(cnt, mx), "ok", B.const(NONE), {self.v("cnt"): B.add(cnt, one), self.v("unf"): B.add(unf, one)})]
    if op == "put_nowait":
      return [(B.ult(cnt, mx), "ok", B.const(NONE), {self.v("cnt"): B.add(cnt, one), self.v("unf"): B.add(unf, one)}),
              (B.not_(B.ult(cnt, mx)), "exc:Full", None, {})]
    if op == "get":          # blocking get
      return [(B.not_(B.eq(cnt, B.const(0))), "ok", B.const(self.TOKEN), {self.v("cnt"): B.sub(cnt, one)})]
    if op == "get_nowait":
      return [(B.not_(B.eq(cnt, B.const(0))), "ok", B.const(self.TOKEN), {self.v("cnt"): B.sub(cnt, one)}),
              (B.eq(cnt, B.const(0)), "exc:Empty", None, {})]
    if op == "full":
      return [(T, "ok", B.ite(B.ule(mx, cnt), one, B.const(0)), {})]
    if op == "empty":
      return [(T, "ok", B.ite(B.eq(cnt, B.const(0)), one, B.const(0)), {})]
    if op == "qsize":
      return [(T, "ok", cnt, {})]
    if op == "task_done":
      return [(B.not_(B.eq(unf, B.const(0))), "ok", B.const(NONE), {self.v("unf"): B.sub(unf, one)}),
              (B.eq(unf, B.const(0)), "exc:ValueError", None, {})]
    raise NotImplementedError("Queue.%s" % op)


class MDeque(Model):
  """collections.deque(maxlen=n) with n cells; cells beyond the length are kept at 0 (canonical states)"""
  cls = "deque"

  def __init__(self, name, maxlen, items=()):
    super().__init__(name)
    self.maxlen = maxlen
    self.items0 = list(items)
    assert len(self.items0) <= maxlen

  def init(self):
    d = {self.v("len"): len(self.items0)}
    for i in range(self.maxlen):
      d[self.v("c%d" % i)] = self.items0[i] if i < len(self.items0) else 0
    return d

  def static_attr(self, attr):
    if attr == "maxlen":
      return self.maxlen
    raise KeyError(attr)

  def cells(self, st):
    return [st[self.v("c%d" % i)] for i in range(self.maxlen)]

  def sel(self, B, cells, idx):
    """cells[idx] for a dynamic idx"""
    out = B.const(0)
    for i in reversed(range(len(cells))):
      out = B.ite(B.eq(idx, B.const(i)), cells[i], out)
    return out

  def apply(self, B, st, op, args, tid):
    n = self.maxlen
    ln = st[self.v("len")]
    c = self.cells(st)
    K = B.const
    T = B.true()
    one = K(1)
    full = B.ule(K(n), ln)
    empty = B.eq(ln, K(0))
    LEN = self.v("len")

    def cellv(i):
      return self.v("c%d" % i)

    if op == "__len__":
      return [(T, "ok", ln, {})]
    if op == "append":
      x = args[0]
      up = {}
      for i in range(n):
        # not full: cell[len] = x ; full: shift left, last = x
        nf = B.ite(B.eq(ln, K(i)), x, c[i])
        fl = c[i + 1] if i + 1 < n else x
        up[cellv(i)] = B.ite(full, fl, nf)
      up[LEN] = B.ite(full, ln, B.add(ln, one))
      return [(T, "ok", K(NONE), up)]
    if op == "appendleft":
      x = args[0]
      up = {}
      for i in range(n):
        sh = c[i - 1] if i > 0 else x           # shift right, cell 0 = x (when full the last one falls off)
        keep = B.ule(K(i), ln)                  # cells up to index len are defined after the shift
        up[cellv(i)] = B.ite(B.or_(full, keep), sh, K(0))
      up[LEN] = B.ite(full, ln, B.add(ln, one))
      return [(T, "ok", K(NONE), up)]
    if op == "pop":
      last = self.sel(B, c, B.sub(ln, one))
      up = {LEN: B.sub(ln, one)}
      for i in range(n):
        up[cellv(i)] = B.ite(B.eq(B.sub(ln, one), K(i)), K(0), c[i])
      return [(B.not_(empty), "ok", last, up), (empty, "exc:IndexError", None, {})]
    if op == "popleft":
      up = {LEN: B.sub(ln, one)}
      for i in range(n):
        up[cellv(i)] = c[i + 1] if i + 1 < n else K(0)
      return [(B.not_(empty), "ok", c[0], up), (empty, "exc:IndexError", None, {})]
    if op == "rotate":
      k = args[0]
      up = {}
      last = self.sel(B, c, B.sub(ln, one))
      for i in range(n):
        if k == 1:        # right: last -> front
          v = last if i == 0 else B.ite(B.ult(K(i), ln), c[i - 1], K(0))
          if i == 0:
            v = B.ite(empty, K(0), last)
        elif k == -1:     # left: first -> end
          nxt = c[i + 1] if i + 1 < n else K(0)
          v = B.ite(B.eq(B.sub(ln, one), K(i)), c[0], B.ite(B.ult(K(i), ln), nxt, K(0)))
          v = B.ite(empty, K(0), v)
        else:
          raise NotImplementedError("rotate(%r)" % (k,))
        up[cellv(i)] = v
      return [(T, "ok", K(NONE), up)]
    if op == "clear":
      up = {LEN: K(0)}
      for i in range(n):
        up[cellv(i)] = K(0)
      return [(T, "ok", K(NONE), up)]
    if op == "getitem":
      i = args[0]
      if i == 0:
        return [(B.not_(empty), "ok", c[0], {}), (empty, "exc:IndexError", None, {})]
      if i == -1:
        return [(B.not_(empty), "ok", self.sel(B, c, B.sub(ln, one)), {}), (empty, "exc:IndexError", None, {})]
      if isinstance(i, int) and i > 0:
        ok = B.ult(K(i), ln)
        return [(ok, "ok", c[i] if i < n else K(0), {}), (B.not_(ok), "exc:IndexError", None, {})]
      raise NotImplementedError("deque[%r]" % (i,))
    if op == "snapshot":       # list(d) / [e for e in d]: atomic in CPython
      return [(T, "ok", tuple([ln] + c), {})]
    raise NotImplementedError("deque.%s" % op)


class MEvent(Model):
  """threading.Event"""
  cls = "Event"

  def __init__(self, name, flag=0):
    super().__init__(name)
    self.flag0 = flag

  def init(self):
    return {self.v("flag"): self.flag0}

  def apply(self, B, st, op, args, tid):
    f = st[self.v("flag")]
    T = B.true()
    if op == "set":
      return [(T, "ok", B.const(NONE), {self.v("flag"): B.const(1)})]
    if op == "clear":
      return [(T, "ok", B.const(NONE), {self.v("flag"): B.const(0)})]
    if op == "is_set":
      return [(T, "ok", f, {})]
    if op == "wait":
      return [(B.eq(f, B.const(1)), "ok", B.const(1), {})]
    raise NotImplementedError("Event.%s" % op)


class MRLock(Model):
  """threading.RLock: owner (0 = free, thread id + 1) and recursion count.  reentrant=False: threading.Lock - a second acquire by the
  holder blocks like anybody else's, any thread may release it"""
  cls = "RLock"

  def __init__(self, name, reentrant=True):
    super().__init__(name)
    self.reentrant = reentrant

  def init(self):
    return {self.v("owner"): 0, self.v("count"): 0}

  def apply(self, B, st, op, args, tid):
    ow, ct = st[self.v("owner")], st[self.v("count")]
    me = B.const(tid + 1)
    free = B.eq(ow, B.const(0))
    mine = B.eq(ow, me)
    if not self.reentrant:
      if op == "acquire":
        return [(free, "ok", B.const(1), {self.v("owner"): me, self.v("count"): B.const(1)})]
      if op == "release":
        return [(B.not_(free), "ok", B.const(NONE), {self.v("owner"): B.const(0), self.v("count"): B.const(0)}),
                (free, "exc:RuntimeError", None, {})]
    if op == "acquire":
      return [(B.or_(free, mine), "ok", B.const(1), {self.v("owner"): me, self.v("count"): B.add(ct, B.const(1))})]
    if op == "release":
      last = B.eq(ct, B.const(1))
      return [(mine, "ok", B.const(NONE), {self.v("owner"): B.ite(last, B.const(0), ow), self.v("count"): B.sub(ct, B.const(1))}),
              (B.not_(mine), "exc:RuntimeError", None, {})]
    raise NotImplementedError("RLock.%s" % op)


class MAttr(Model):
  """a plain attribute of a shared python object: one step per load, one per store"""
  cls = "attr"

  def __init__(self, name, value=0):
    super().__init__(name)
    self.value0 = value

  def init(self):
    return {self.v("val"): self.value0}

  def apply(self, B, st, op, args, tid):
    T = B.true()
    if op == "load":
      return [(T, "ok", st[self.v("val")], {})]
    if op == "store":
      return [(T, "ok", B.const(NONE), {self.v("val"): args[0]})]
    raise NotImplementedError("attr.%s" % op)


class MThread(Model):
  """threading.Thread: 0 new, 1 running, 2 ended.  `prog` = index of the modelled thread it runs."""
  cls = "Thread"

  def __init__(self, name, prog, state=0):
    super().__init__(name)
    self.prog = prog
    self.state0 = state

  def init(self):
    return {self.v("st"): self.state0}

  def apply(self, B, st, op, args, tid):
    s = st[self.v("st")]
    T = B.true()
    if op == "start":
      return [(B.eq(s, B.const(0)), "ok", B.const(NONE), {self.v("st"): B.const(1)}),
              (B.not_(B.eq(s, B.const(0))), "exc:RuntimeError", None, {})]
    if op == "join":
      if tid == self.prog:
        return [(T, "exc:RuntimeError", None, {})]           # cannot join current thread
      return [(B.eq(s, B.const(2)), "ok", B.const(NONE), {}),
              (B.eq(s, B.const(0)), "exc:RuntimeError", None, {})]   # cannot join thread before it is started
    if op == "is_alive":
      return [(T, "ok", B.ite(B.eq(s, B.const(1)), B.const(1), B.const(0)), {})]
    if op == "finish":        # the thread's target function returned
      return [(T, "ok", B.const(NONE), {self.v("st"): B.const(2)})]
    raise NotImplementedError("Thread.%s" % op)


class MDict(Model):
  """an (Ordered)dict used as a registry: up to n (key, value) cells in insertion order + size.
  Iteration (items()) raises RuntimeError at the next step if the size changed since the iterator was made."""
  cls = "dict"

  def __init__(self, name, cells, items=()):
    super().__init__(name)
    self.n = cells
    self.items0 = list(items)

  def init(self):
    d = {self.v("size"): len(self.items0)}
    for i in range(self.n):
      d[self.v("k%d" % i)] = self.items0[i][0] if i < len(self.items0) else 0
      d[self.v("v%d" % i)] = self.items0[i][1] if i < len(self.items0) else 0
    return d

  def apply(self, B, st, op, args, tid):
    K = B.const
    T = B.true()
    n = self.n
    size = st[self.v("size")]
    ks = [st[self.v("k%d" % i)] for i in range(n)]
    vs = [st[self.v("v%d" % i)] for i in range(n)]

    def has(cells, x):
      return B.or_(*[B.and_(B.ult(K(i), size), B.eq(cells[i], x)) for i in range(n)])

    def lookup(x):
      out = K(0)
      for i in reversed(range(n)):
        out = B.ite(B.and_(B.ult(K(i), size), B.eq(ks[i], x)), vs[i], out)
      return out
    if op == "__len__":
      return [(T, "ok", size, {})]
    if op == "contains":
      return [(T, "ok", B.ite(has(ks, args[0]), K(1), K(0)), {})]
    if op == "values_contains":
      return [(T, "ok", B.ite(has(vs, args[0]), K(1), K(0)), {})]
    if op == "getitem":
      h = has(ks, args[0])
      return [(h, "ok", lookup(args[0]), {}), (B.not_(h), "exc:KeyError", None, {})]
    if op == "setitem":
      k, v = args
      h = has(ks, k)
      up = {}
      for i in range(n):
        hit = B.and_(B.ult(K(i), size), B.eq(ks[i], k))
        new = B.and_(B.not_(h), B.eq(size, K(i)))
        up[self.v("k%d" % i)] = B.ite(new, k, ks[i])
        up[self.v("v%d" % i)] = B.ite(B.or_(hit, new), v, vs[i])
      up[self.v("size")] = B.ite(h, size, B.add(size, K(1)))
      room = B.or_(h, B.ult(size, K(n)))
      return [(room, "ok", K(NONE), up), (B.not_(room), "exc:ModelCapacity", None, {})]
    if op == "get_default":   # d.get(key, default)
      return [(T, "ok", B.ite(has(ks, args[0]), lookup(args[0]), args[1]), {})]
    if op == "iter":          # items()/keys()/values() iterator: remembers the size
      return [(T, "ok", size, {})]
    if op == "next":          # args: (index, size at iter) -> (key, value) | StopIteration | RuntimeError
      i, s0 = args
      changed = B.not_(B.eq(size, s0))
      done = B.ule(size, i)
      key = K(0)
      val = K(0)
      for j in reversed(range(n)):
        key = B.ite(B.eq(i, K(j)), ks[j], key)
        val = B.ite(B.eq(i, K(j)), vs[j], val)
      return [(changed, "exc:RuntimeError", None, {}),
              (B.and_(B.not_(changed), done), "exc:StopIteration", None, {}),
              (B.and_(B.not_(changed), B.not_(done)), "ok", (key, val), {})]
    if op == "snapshot_items":     # list(d.items()): atomic
      return [(T, "ok", tuple([size] + ks + vs), {})]
    if op == "snapshot_keys":
      return [(T, "ok", tuple([size] + ks), {})]
    if op == "snapshot_values":
      return [(T, "ok", tuple([size] + vs), {})]
    raise NotImplementedError("dict.%s" % op)


class MSleep(Model):
  """time.sleep: always enabled, may take arbitrarily long relative to the other threads (the scheduler decides)"""
  cls = "sleep"

  def apply(self, B, st, op, args, tid):
    return [(B.true(), "ok", B.const(NONE), {})]


class MAlloc(Model):
  """object allocation (klass(...)): returns a fresh object id each time"""
  cls = "alloc"

  def __init__(self, name, first=1):
    super().__init__(name)
    self.first = first

  def init(self):
    return {self.v("next"): self.first}

  def apply(self, B, st, op, args, tid):
    nx = st[self.v("next")]
    return [(B.true(), "ok", nx, {self.v("next"): B.add(nx, B.const(1))})]


class MCounter(Model):
  """itertools.count(): next() returns the current number and advances, as one indivisible step (a C call under the interpreter lock)"""
  cls = "counter"

  def __init__(self, name, first=0):
    super().__init__(name)
    self.first = first

  def init(self):
    return {self.v("n"): self.first}

  def apply(self, B, st, op, args, tid):
    n = st[self.v("n")]
    if op == "take":          # ("next" is the name of the read-only step of an iterator)
      return [(B.true(), "ok", n, {self.v("n"): B.add(n, B.const(1))})]
    raise NotImplementedError("count.%s" % op)


class MLists(Model):
  """a pool of python lists created at run time (the values of a dict of lists): list number 1..n, each with up to `cells` elements.
  new(x) takes the next free list and initialises it with [x]; the other operations take the list number as their first argument.
  iter_next(li, i) is one step of a list iterator: element i, or StopIteration once i >= len (the live length, as CPython does)."""
  cls = "lists"

  def __init__(self, name, nlists, cells, initial=()):
    super().__init__(name)
    self.nlists, self.cells = nlists, cells
    self.initial = [list(x) for x in initial]      # lists that exist at the start (numbers 1..len(initial))

  def init(self):
    d = {self.v("next"): 1 + len(self.initial)}
    for j in range(self.nlists):
      items = self.initial[j] if j < len(self.initial) else []
      d[self.v("len%d" % j)] = len(items)
      for i in range(self.cells):
        d[self.v("c%d_%d" % (j, i))] = items[i] if i < len(items) else 0
    return d

  def apply(self, B, st, op, args, tid):
    K = B.const
    T = B.true()
    nx = st[self.v("next")]
    if op == "new":
      x = args[0]
      up = {self.v("next"): B.add(nx, K(1))}
      for j in range(self.nlists):
        me = B.eq(nx, K(j + 1))
        up[self.v("len%d" % j)] = B.ite(me, K(1), st[self.v("len%d" % j)])
        up[self.v("c%d_0" % j)] = B.ite(me, x, st[self.v("c%d_0" % j)])
      room = B.ule(nx, K(self.nlists))
      return [(room, "ok", nx, up), (B.not_(room), "exc:ModelCapacity", None, {})]
    li = args[0]
    lens = [st[self.v("len%d" % j)] for j in range(self.nlists)]
    ln = K(0)
    for j in reversed(range(self.nlists)):
      ln = B.ite(B.eq(li, K(j + 1)), lens[j], ln)

    def elem(i):
      out = K(0)
      for j in reversed(range(self.nlists)):
        for c in reversed(range(self.cells)):
          out = B.ite(B.and_(B.eq(li, K(j + 1)), B.eq(i, K(c))), st[self.v("c%d_%d" % (j, c))], out)
      return out
    if op == "__len__":
      return [(T, "ok", ln, {})]
    if op == "append":
      x = args[1]
      up = {}
      for j in range(self.nlists):
        me = B.eq(li, K(j + 1))
        up[self.v("len%d" % j)] = B.ite(me, B.add(lens[j], K(1)), lens[j])
        for c in range(self.cells):
          up[self.v("c%d_%d" % (j, c))] = B.ite(B.and_(me, B.eq(lens[j], K(c))), x, st[self.v("c%d_%d" % (j, c))])
      room = B.ult(ln, K(self.cells))
      return [(room, "ok", K(NONE), up), (B.not_(room), "exc:ModelCapacity", None, {})]
    if op == "concat_new":       # lst + [x]: one C-level call that makes a new list (the next free one) out of the live contents of lst
      x = args[1]
      up = {self.v("next"): B.add(nx, K(1))}
      for j in range(self.nlists):
        me = B.eq(nx, K(j + 1))
        up[self.v("len%d" % j)] = B.ite(me, B.add(ln, K(1)), lens[j])
        for c in range(self.cells):
          up[self.v("c%d_%d" % (j, c))] = B.ite(me, B.ite(B.ult(K(c), ln), elem(K(c)), B.ite(B.eq(K(c), ln), x, K(0))), st[self.v("c%d_%d" % (j, c))])
      room = B.and_(B.ule(nx, K(self.nlists)), B.ult(ln, K(self.cells)))
      return [(room, "ok", nx, up), (B.not_(room), "exc:ModelCapacity", None, {})]
    if op == "assign_from":      # lst[:] = other_list: one C-level call copies the live contents of the other list (number 0: an empty sequence)
      src = args[1]
      up = {}
      for j in range(self.nlists):
        me = B.eq(li, K(j + 1))
        slen = K(0)
        for j2 in reversed(range(self.nlists)):
          slen = B.ite(B.eq(src, K(j2 + 1)), lens[j2], slen)
        up[self.v("len%d" % j)] = B.ite(me, slen, lens[j])
        for c in range(self.cells):
          sc_ = K(0)
          for j2 in reversed(range(self.nlists)):
            sc_ = B.ite(B.eq(src, K(j2 + 1)), st[self.v("c%d_%d" % (j2, c))], sc_)
          up[self.v("c%d_%d" % (j, c))] = B.ite(me, B.ite(B.ult(K(c), slen), sc_, K(0)), st[self.v("c%d_%d" % (j, c))])
      return [(T, "ok", K(NONE), up)]
    if op == "replace":          # lst[:] = [...]: one C-level call; args: list, new length, new cells
      n2, new = args[1], args[2:]
      up = {}
      for j in range(self.nlists):
        me = B.eq(li, K(j + 1))
        up[self.v("len%d" % j)] = B.ite(me, n2, lens[j])
        for c in range(self.cells):
          up[self.v("c%d_%d" % (j, c))] = B.ite(me, B.ite(B.ult(K(c), n2), new[c], K(0)), st[self.v("c%d_%d" % (j, c))])
      return [(T, "ok", K(NONE), up)]
    if op == "iter_next":
      i = args[1]
      more = B.ult(i, ln)
      return [(more, "ok", elem(i), {}), (B.not_(more), "exc:StopIteration", None, {})]
    if op == "getitem":
      i = args[1]
      ok = B.ult(i, ln)
      return [(ok, "ok", elem(i), {}), (B.not_(ok), "exc:IndexError", None, {})]
    raise NotImplementedError("lists.%s" % op)


class MItemQueue(Model):
  """queue.PriorityQueue holding records: items leave by (priority, arrival order); `prio` maps a record number to its priority.
  The ordering itself (FabricEvent.__lt__ on the real heap) is C08's E1 subject; here the queue is the contract."""
  cls = "PriorityQueue"

  def __init__(self, name, cells, prio):
    super().__init__(name)
    self.n, self.prio = cells, dict(prio)

  def init(self):
    d = {self.v("len"): 0, self.v("unf"): 0}
    for i in range(self.n):
      d[self.v("c%d" % i)] = 0
    return d

  def priority(self, B, x):
    out = B.const(0)
    for rid, p in self.prio.items():
      out = B.ite(B.eq(x, B.const(rid)), B.const(p), out)
    return out

  def apply(self, B, st, op, args, tid):
    K = B.const
    T = B.true()
    ln, unf = st[self.v("len")], st[self.v("unf")]
    c = [st[self.v("c%d" % i)] for i in range(self.n)]
    if op == "put":
      x = args[0]
      px = self.priority(B, x)
      # position = number of queued items whose priority is <= the new one's (stable)
      pos = K(0)
      for i in range(self.n):
        pos = B.add(pos, B.ite(B.and_(B.ult(K(i), ln), B.ule(self.priority(B, c[i]), px)), K(1), K(0)))
      up = {self.v("len"): B.add(ln, K(1)), self.v("unf"): B.add(unf, K(1))}
      for i in range(self.n):
        before = c[i]
        shifted = c[i - 1] if i > 0 else K(0)
        up[self.v("c%d" % i)] = B.ite(B.ult(K(i), pos), before, B.ite(B.eq(K(i), pos), x, B.ite(B.ule(K(i), ln), shifted, K(0))))
      room = B.ult(ln, K(self.n))
      return [(room, "ok", K(NONE), up), (B.not_(room), "exc:ModelCapacity", None, {})]
    if op == "get":
      up = {self.v("len"): B.sub(ln, K(1))}
      for i in range(self.n):
        up[self.v("c%d" % i)] = c[i + 1] if i + 1 < self.n else K(0)
      return [(B.not_(B.eq(ln, K(0))), "ok", c[0], up)]
    if op == "task_done":
      return [(B.not_(B.eq(unf, K(0))), "ok", K(NONE), {self.v("unf"): B.sub(unf, K(1))}), (B.eq(unf, K(0)), "exc:ValueError", None, {})]
    if op == "qsize":
      return [(T, "ok", ln, {})]
    raise NotImplementedError("PriorityQueue.%s" % op)
