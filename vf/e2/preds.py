"""State predicates of the E2 queries, by name (each factory gets the scenario and the system and returns fn(B, state))."""
import z3

from vf.e2 import ir, bmc


def pcc(B, n):
  return n if B is ir.ConcreteB else z3.BitVecVal(n, bmc.PCW)


def at_any(B, st, tid, nodes):
  return B.or_(*[B.eq(st["pc.%d" % tid], pcc(B, e)) for e in nodes])


def ended(sysm, B, st, tid):
  return at_any(B, st, tid, sysm.ends[tid])


def crashed_nodes(sysm, tid):
  return [n.id for n in sysm.prog(tid).nodes if isinstance(n, ir.End) and n.kind.startswith("crashed")]


def done_nodes(sysm, tid):
  return [n.id for n in sysm.prog(tid).nodes if isinstance(n, ir.End) and n.kind == "done"]


def poster_open(sc, sysm):
  posters = sc.info["posters"]
  return lambda B, st: B.or_(*[B.not_(ended(sysm, B, st, p)) for p in posters])


def posters_done(sc, sysm):
  posters = sc.info["posters"]
  return lambda B, st: B.and_(*[at_any(B, st, p, done_nodes(sysm, p)) for p in posters])


def any_crash(sc, sysm):
  def f(B, st):
    xs = []
    for p in sysm.programs:
      cn = crashed_nodes(sysm, p.tid)
      if cn:
        xs.append(at_any(B, st, p.tid, cn))
    return B.or_(*xs) if xs else B.false()
  return f


def order_bad(sc, sysm):
  return lambda B, st: B.eq(st["D.order_bad"], B.const(1))


def double_dispatch(sc, sysm):
  evs = sc.info["events"]
  return lambda B, st: B.or_(*[B.ule(B.const(2), st["disp.e%d" % e]) for e in evs])


def quiescent_wrong(sc, sysm):
  """all posters returned, yet an event is still pending or was not dispatched exactly once (used with the deadlock query:
  no thread enabled, i.e. the consumer waits)"""
  evs = sc.info["events"]
  hp = sc.info.get("handler_post_event")
  done = posters_done(sc, sysm)

  def f(B, st):
    good = [B.eq(st["D.len"], B.const(0))]
    for e in evs:
      want = st["in.hpost"] if e == hp else B.const(1)
      good.append(B.eq(st["disp.e%d" % e], want))
    return B.and_(done(B, st), B.not_(B.and_(*good)))
  return f


def all_dispatched(sc, sysm):
  """vacuity guard: every posted event dispatched once and every poster done is reachable"""
  evs = sc.info["events"]
  hp = sc.info.get("handler_post_event")
  done = posters_done(sc, sysm)

  def f(B, st):
    good = [B.eq(st["D.len"], B.const(0))]
    for e in evs:
      want = st["in.hpost"] if e == hp else B.const(1)
      good.append(B.eq(st["disp.e%d" % e], want))
    return B.and_(done(B, st), *good)
  return f


def true(sc, sysm):
  return lambda B, st: B.true()


def c04_bad(sc, sysm):
  fs = [order_bad(sc, sysm), double_dispatch(sc, sysm), any_crash(sc, sysm)]
  return lambda B, st: B.or_(*[f(B, st) for f in fs])


def singleton_bad(sc, sysm):
  """two finished callers hold different objects, or a finished caller holds no object"""
  n = sc.info["nthreads"]

  def f(B, st):
    xs = []
    for a in range(n):
      da = at_any(B, st, a, done_nodes(sysm, a))
      xs.append(B.and_(da, B.or_(B.eq(st["res.%d" % a], B.const(0)), B.eq(st["res.%d" % a], B.const(ir.NONE)))))
      for b in range(a + 1, n):
        db = at_any(B, st, b, done_nodes(sysm, b))
        xs.append(B.and_(da, db, B.not_(B.eq(st["res.%d" % a], st["res.%d" % b]))))
    return B.or_(*xs)
  return f


def all_done(sc, sysm):
  return lambda B, st: B.and_(*[at_any(B, st, p.tid, done_nodes(sysm, p.tid)) for p in sysm.programs])


def someone_open(sc, sysm):
  return lambda B, st: B.or_(*[B.not_(ended(sysm, B, st, p.tid)) for p in sysm.programs])


def tsa_serial_values(kinds):
  """final values of every serial order of the statements (initial value 0)"""
  import itertools
  from vf.e2.scenarios import TSA_CONST, TSA_ASSIGN
  out = set()
  for order in itertools.permutations(range(len(kinds))):
    v = 0
    for t in order:
      if kinds[t] == "assign":
        v = TSA_ASSIGN[t]
      elif kinds[t] == "aug":
        v += TSA_CONST[t]
    out.add(v)
  return sorted(out)


def tsa_final(B, st):
  """value of the attribute: vals['key'] if stored, else 0"""
  return B.ite(B.eq(st["vals.size"], B.const(0)), B.const(0), st["vals.v0"])


def tsa_bad_value(sc, sysm):
  ok_values = tsa_serial_values(sc.info["kinds"])
  done = all_done(sc, sysm)

  def f(B, st):
    v = tsa_final(B, st)
    return B.and_(done(B, st), B.not_(B.or_(*[B.eq(v, B.const(x)) for x in ok_values])))
  return f


def tsa_lock_left(sc, sysm):
  """every statement finished, yet the lock is still held by someone"""
  done = all_done(sc, sysm)
  locks = sc.info["lock_names"]
  return lambda B, st: B.and_(done(B, st), B.or_(*[B.not_(B.eq(st[l + ".owner"], B.const(0))) for l in locks]))


def tsa_any_bad(sc, sysm):
  fs = [any_crash(sc, sysm), tsa_bad_value(sc, sysm), tsa_lock_left(sc, sysm)]
  return lambda B, st: B.or_(*[f(B, st) for f in fs])


# ---- stopping scenario (C12, C11, C31) ------------------------------------------------------------------------------
def g_is(name, val=1):
  return lambda sc, sysm: (lambda B, st: B.eq(st[name], B.const(val)))


returned = g_is("g.returned")
late_dispatch = g_is("g.late_dispatch")
late_fresh = g_is("g.late_fresh")
late_stale = g_is("g.late_stale")


def returned_consumer_alive(sc, sysm):
  """stop() has returned in another thread but the object's thread has not ended"""
  return lambda B, st: B.and_(B.eq(st["g.returned"], B.const(1)), B.not_(ended(sysm, B, st, 1)))


def returned_flag_wrong(sc, sysm):
  """after the call returned: a source that had to be stopped still has its run flag up or is still tracked, or one that had to be
  left alone lost its flag / its place in the tracked list"""
  info = sc.info
  action = info["action"]

  def f(B, st):
    bad = []
    n = info["sources"]
    for i, fl in enumerate(info["flags"]):
      must_stop = action == "stop" or i == 0 or (action == "cancel_events" and not info["other_source"])
      up = B.eq(st[fl + ".flag"], B.const(1))
      if must_stop:
        bad.append(up)
      else:
        # a source finishes by itself (clears its own flag) after its last firing: only a *premature* clear is wrong
        bad.append(B.and_(B.not_(up), B.ult(st["g.posts.%d" % info["timer_tids"][i]], B.const(info["times"]))))
    want_tracked = 0 if action == "stop" else sum(1 for i in range(n) if not (i == 0 or (action == "cancel_events" and not info["other_source"])))
    bad.append(B.not_(B.eq(st["tracked.len"], B.const(want_tracked))))
    return B.and_(B.eq(st["g.returned"], B.const(1)), B.or_(*bad))
  return f


def caller_open(sc, sysm):
  return lambda B, st: B.not_(ended(sysm, B, st, 0))


def stop_bad(sc, sysm):
  fs = [any_crash(sc, sysm), returned_consumer_alive(sc, sysm), late_dispatch(sc, sysm), late_fresh(sc, sysm), returned_flag_wrong(sc, sysm)]
  return lambda B, st: B.or_(*[f(B, st) for f in fs])


def cancel_bad(sc, sysm):
  fs = [any_crash(sc, sysm), late_fresh(sc, sysm), returned_flag_wrong(sc, sysm)]
  return lambda B, st: B.or_(*[f(B, st) for f in fs])


def handler_stop_bad(sc, sysm):
  fs = [any_crash(sc, sysm), late_dispatch(sc, sysm)]
  return lambda B, st: B.or_(*[f(B, st) for f in fs])


def consumer_open(sc, sysm):
  return lambda B, st: B.not_(ended(sysm, B, st, 1))


def handler_stopped(sc, sysm):
  return lambda B, st: B.eq(st["g.handler_stopped"], B.const(1))


def caller_stuck_not_capacity(sc, sysm):
  """the caller has not returned although the token queue has room (a caller blocked on a *full* token queue with the consumer
  gone is the capacity race that C05/C16 leave outside their claims)"""
  cap = sc.info["capacity"]
  return lambda B, st: B.and_(B.not_(ended(sysm, B, st, 0)), B.ult(st["Q.cnt"], B.const(cap)))


def consumer_alive_after_handler_stop(sc, sysm):
  return lambda B, st: B.and_(B.eq(st["g.handler_stopped"], B.const(1)), B.not_(ended(sysm, B, st, 1)))


# ---- registry scenario (C25) ------------------------------------------------------------------------------------------------
def registry_bad(sc, sysm):
  """everybody finished and: two different names share a number, or a name's number is not its position, or the size is wrong;
  or somebody crashed"""
  ops = sc.info["ops"]
  n0 = sc.info["initial_size"]
  done = all_done(sc, sysm)
  crash = any_crash(sc, sysm)
  new_names = sorted({a for (k, a) in ops if isinstance(a, str) and k in ("append", "event", "attr")})

  def f(B, st):
    bad = []
    size = st["signals.size"]
    bad.append(B.not_(B.eq(size, B.const(n0 + len(new_names)))))
    # numbers of the registered cells must be 1..size in order (a bijection)
    for i in range(4):
      bad.append(B.and_(B.ult(B.const(i), size), B.not_(B.eq(st["signals.v%d" % i], B.const(i + 1)))))
    appenders = [(t, a) for t, (k, a) in enumerate(ops) if k in ("append", "attr")]
    for x in range(len(appenders)):
      for y in range(x + 1, len(appenders)):
        (ta, na), (tb, nb) = appenders[x], appenders[y]
        same = B.eq(st["res.%d" % ta], st["res.%d" % tb])
        bad.append(same if na != nb else B.not_(same))
    return B.or_(crash(B, st), B.and_(done(B, st), B.or_(*bad)))
  return f


# ---- fabric_start scenario (C13 under concurrent calls) ---------------------------------------------------------------------------
def two_delivery_threads(sc, sysm):
  """two running delivery threads of the same kind at the same time"""
  pool = sc.info["pool"]

  def f(B, st):
    bad = []
    for kind in (1, 2):
      run = [B.and_(B.eq(st["g.kind.%d" % j], B.const(kind)), B.eq(st["pool%d.st" % j], B.const(1))) for j in range(pool)]
      for a in range(pool):
        for b in range(a + 1, pool):
          bad.append(B.and_(run[a], run[b]))
    return B.or_(*bad)
  return f


def callers_done(sc, sysm):
  n = sc.info["ncallers"]
  return lambda B, st: B.and_(*[at_any(B, st, t, done_nodes(sysm, t)) for t in range(n)])


def fabric_start_bad(sc, sysm):
  two = two_delivery_threads(sc, sysm)
  crash = any_crash(sc, sysm)
  done = callers_done(sc, sysm)
  pool = sc.info["pool"]

  def f(B, st):
    # once every caller has returned: a running delivery thread that the fabric holds no handle of (it can never be stopped)
    lost = []
    for j in range(pool):
      running = B.eq(st["pool%d.st" % j], B.const(1))
      held = B.or_(B.eq(st["fabric.fifo_thread.val"], B.const(j + 1)), B.eq(st["fabric.lifo_thread.val"], B.const(j + 1)))
      lost.append(B.and_(running, B.not_(held)))
    return B.or_(two(B, st), crash(B, st), B.and_(done(B, st), B.or_(*lost)))
  return f


def callers_open(sc, sysm):
  n = sc.info["ncallers"]
  return lambda B, st: B.or_(*[B.not_(ended(sysm, B, st, t)) for t in range(n)])


# ---- rejecting scenario (C31) ---------------------------------------------------------------------------------------------------
def rejecting_bad(sc, sysm):
  """the rejected source posted its event (at any time); or the post was accepted although the object tracks its maximum; or a tracked
  source lost its run flag or its place; or somebody crashed"""
  crash = any_crash(sc, sysm)
  flags = sc.info["old_flags"]
  cap = sc.info["capacity"]

  cancel_old = sc.info.get("canceller") == "old"

  def f(B, st):
    bad = [crash(B, st), B.not_(B.eq(st["g.posts_by_new"], B.const(0))), B.eq(st["g.accepted"], B.const(1))]
    for i, fl in enumerate(flags):
      if cancel_old and i == 0:
        continue
      bad.append(B.eq(st[fl + ".flag"], B.const(0)))
    if not cancel_old:
      bad.append(B.and_(B.eq(st["g.rejected"], B.const(1)), B.not_(B.eq(st["tracked.len"], B.const(cap)))))
    return B.or_(*bad)
  return f


rejected = g_is("g.rejected")


def new_flag_left_up(sc, sysm):
  """the call was rejected and returned, yet the rejected source's run flag is up (its thread, if any, would go on posting)"""
  return lambda B, st: B.and_(B.eq(st["g.rejected"], B.const(1)), B.eq(st["new.run.flag"], B.const(1)), ended(sysm, B, st, 0))


def survives_both_cancels(sc, sysm):
  """cancel_events(signal) by another thread and then cancel_event(id) by the poster have both returned, yet the source's run flag is up
  and its thread has not ended (or was not started yet): it goes on posting although it was cancelled twice; or somebody crashed"""
  crash = any_crash(sc, sysm)
  return lambda B, st: B.or_(crash(B, st), B.and_(B.eq(st["g.cancel_by_id_returned"], B.const(1)), B.eq(st["new.run.flag"], B.const(1)),
                                                  B.not_(B.eq(st["new.thread.st"], B.const(2)))))


cancelled_by_id = g_is("g.cancel_by_id_returned")


# ---- an accepted timed post under every interleaving (C10) ----------------------------------------------------------------------------
def timed_too_many(sc, sysm):
  n = sc.info["times"]
  crash = any_crash(sc, sysm)
  return lambda B, st: B.or_(crash(B, st), B.ult(B.const(n), st["g.posts_by_new"]), B.eq(st["g.rejected"], B.const(1)))


def timed_quiescent_wrong(sc, sysm):
  """nobody can move (the object's thread waits), yet the source did not post exactly n times, or its posts were not all dispatched, or its
  run flag is still up, or it is not tracked"""
  n = sc.info["times"]
  pend = sc.info["pending"]
  ex = sc.info["existing"] - (1 if sc.info.get("canceller") == "old" else 0)

  concurrent_cancel = bool(sc.info.get("canceller"))

  def f(B, st):
    conds = [B.eq(st["g.posts_by_new"], B.const(n)), B.eq(st["g.dispatched"], B.const(n + pend)), B.eq(st["new.run.flag"], B.const(0)),
             B.eq(st["g.accepted"], B.const(1)), B.eq(st["D.len"], B.const(0))]
    if not concurrent_cancel:
      # with a third party cancelling *another* source at the same time only the new source's own behaviour is asserted: whether that
      # cancel finds its target while the tracked list is being extended is outside every property's quantifier (DESIGN 10.3)
      conds.append(B.eq(st["tracked.len"], B.const(ex + 1)))
    return B.not_(B.and_(*conds))
  return f


def timed_all_posted(sc, sysm):
  n = sc.info["times"]
  pend = sc.info["pending"]
  return lambda B, st: B.and_(B.eq(st["g.posts_by_new"], B.const(n)), B.eq(st["g.dispatched"], B.const(n + pend)))


# ---- fabric_delivery scenario (C06 / C08 under every interleaving) -----------------------------------------------------------------------
def _contents_is(B, st, q, items):
  conds = [B.eq(st["%s.len" % q], B.const(len(items)))]
  for i, x in enumerate(items):
    conds.append(B.eq(st["%s.c%d" % (q, i)], B.const(x)))
  return B.and_(*conds)


def fabric_allowed(sc):
  """allowed final contents per subscriber queue, as lists of event record numbers (from the property statements: every publication made after
  a subscription returned is delivered once per kind; one made before it may or may not be; equal priorities keep publish order)"""
  import itertools
  e = sc.info["events"]
  script = sc.info["script"]
  if script == "late-subscriber":
    return {"q0": [[e[0], e[1]]], "q1": [[e[1]], [e[0], e[1]]]}
  if script == "resubscribe":
    return {"q0": [[e[0], e[1]]], "q1": [[e[0], e[1]]]}
  if script == "resubscribe-during-delivery":
    return {"q0": [[e[0]]], "q1": [[e[0]]]}
  if script == "priorities":
    ok = [list(p) for p in itertools.permutations([e[3], e[0], e[1]]) if p.index(e[0]) < p.index(e[1])]
    return {"q0": ok, "q1": [[]]}
  if script == "two-kinds":
    # q0: fifo subscription from the start, lifo subscription added before the second publication; q1: lifo from the start
    ok0 = []
    for extra in ([], [e[0]]):                 # the first publication may still reach the late lifo subscription
      base = [e[0], e[1], e[1]] + extra
      for p in set(itertools.permutations(base)):
        p = list(p)
        # per delivery thread the order is publish order: the fifo copies e0 < e1, and the lifo copies likewise
        if p.index(e[0]) < len(p) - 1 - p[::-1].index(e[1]):
          ok0.append(p)
    return {"q0": ok0, "q1": [[e[0], e[1]]]}
  if script == "two-kinds-one-publication":
    return {"q0": [[e[0]]], "q1": [[e[0]]]}      # q0 by the fifo thread, q1 by the lifo thread, once each
  raise KeyError(script)


def fabric_quiescent_wrong(sc, sysm):
  allowed = fabric_allowed(sc)
  done = lambda B, st: at_any(B, st, 0, done_nodes(sysm, 0))

  def f(B, st):
    good = []
    for q, alts in allowed.items():
      good.append(B.or_(*[_contents_is(B, st, q, a) for a in alts]))
    return B.and_(done(B, st), B.not_(B.and_(*good)))
  return f


def fabric_all_delivered(sc, sysm):
  allowed = fabric_allowed(sc)
  done = lambda B, st: at_any(B, st, 0, done_nodes(sysm, 0))

  def f(B, st):
    good = [B.or_(*[_contents_is(B, st, q, a) for a in alts]) for q, alts in allowed.items()]
    return B.and_(done(B, st), B.eq(st["fifo_queue.len"], B.const(0)), *good)
  return f


def fabric_overdelivery(sc, sysm):
  """more copies in a queue than any allowed outcome has (a duplicate delivery), at any time; or a crash"""
  allowed = fabric_allowed(sc)
  crash = any_crash(sc, sysm)

  def f(B, st):
    bad = [crash(B, st)]
    for q, alts in allowed.items():
      mx = max(len(a) for a in alts)
      bad.append(B.ult(B.const(mx), st["%s.len" % q]))
    return B.or_(*bad)
  return f


def consumer_stuck(sc, sysm):
  """nobody can move although the object's thread is not at its normal waiting place (the token wait): it is blocked somewhere else - e.g. inside a
  post made by one of its own handlers on a full token queue"""
  ct = sc.info["consumer"]
  waits = [n.id for n in sysm.prog(ct).nodes if isinstance(n, ir.Op) and n.name == "get" and getattr(n.target, "name", "") == "Q"]
  return lambda B, st: B.and_(B.not_(ended(sysm, B, st, ct)), B.not_(at_any(B, st, ct, waits)))


def quiescent_lost(sc, sysm):
  """every poster has returned and nobody can move, yet an event is still queued (lost wake-up) - needs no ghost state"""
  done = posters_done(sc, sysm)
  return lambda B, st: B.and_(done(B, st), B.not_(B.eq(st["D.len"], B.const(0))))


# ---- publishers scenario (C08 with several publishing threads) ----------------------------------------------------------------------------
def _publish_pairs(sc):
  """(a, b): publish call a had returned before call b began - same thread and earlier, or another thread's call with the ghost flag"""
  calls = [tuple(c) for c in sc.info["calls"]]
  return [(a, b) for a in calls for b in calls if a != b and (a[0] != b[0] or a[1] < b[1])]


def publish_order_bad(sc, sysm):
  """every publisher has finished and there are two publish calls, the first of which had returned before the second began, whose fabric
  events of one kind are not numbered in that order (equal or reversed sequence numbers: the priority queue no longer keeps them in
  publish order); or somebody crashed"""
  crash = any_crash(sc, sysm)
  n = len(sc.info["counts"])

  def f(B, st):
    bad = []
    for (a, b) in _publish_pairs(sc):
      hb = B.true() if a[0] == b[0] else B.eq(st["g.hb.%d.%d.%d.%d" % (a + b)], B.const(1))
      for kind in ("fifo", "lifo"):
        bad.append(B.and_(hb, B.not_(B.ult(st["g.seq.%s.%d.%d" % ((kind,) + a)], st["g.seq.%s.%d.%d" % ((kind,) + b)]))))
    return B.or_(crash(B, st), B.and_(B.and_(*[ended(sysm, B, st, t) for t in range(n)]), B.or_(*bad)))
  return f


def publish_ordered_across_threads(sc, sysm):
  """vacuity guard: everybody finished and at least one call of one thread had returned before a call of another thread began"""
  n = len(sc.info["counts"])
  calls = [tuple(c) for c in sc.info["calls"]]

  def f(B, st):
    flags = [B.eq(st["g.hb.%d.%d.%d.%d" % (a + b)], B.const(1)) for a in calls for b in calls if a[0] != b[0]]
    return B.and_(B.and_(*[ended(sysm, B, st, t) for t in range(n)]), B.or_(*flags))
  return f


def publishers_open(sc, sysm):
  n = len(sc.info["counts"])
  return lambda B, st: B.or_(*[B.not_(ended(sysm, B, st, t)) for t in range(n)])


# ---- subscribers scenario (C07: several objects subscribe to one signal at once) ------------------------------------------------------------
def _registered_count(sc, B, st, q):
  """how often queue number q occurs in the list the registry holds for the signal"""
  nl, nc = sc.info["lists"]
  d = sc.info["dict"]
  li = B.ite(B.and_(B.ult(B.const(0), st[d + ".size"]), B.eq(st[d + ".k0"], B.const(sc.info["signal"]))), st[d + ".v0"], B.const(0))
  total = B.const(0)
  for j in range(nl):
    for c in range(nc):
      hit = B.and_(B.eq(li, B.const(j + 1)), B.ult(B.const(c), st["registries.len%d" % j]), B.eq(st["registries.c%d_%d" % (j, c)], B.const(q)))
      total = B.add(total, B.ite(hit, B.const(1), B.const(0)))
  return total


def subscription_lost(sc, sysm):
  """every subscribe call has returned and some queue that subscribed is not registered for the signal exactly once; or somebody crashed"""
  crash = any_crash(sc, sysm)
  n = sc.info["n"]

  def f(B, st):
    wrong = [B.not_(B.eq(_registered_count(sc, B, st, q), B.const(1))) for q in sc.info["want_queue_numbers"]]
    return B.or_(crash(B, st), B.and_(B.and_(*[ended(sysm, B, st, t) for t in range(n)]), B.or_(*wrong)))
  return f


def subscribers_done(sc, sysm):
  n = sc.info["n"]
  return lambda B, st: B.and_(*[ended(sysm, B, st, t) for t in range(n)])


def subscribers_open(sc, sysm):
  n = sc.info["n"]
  return lambda B, st: B.or_(*[B.not_(ended(sysm, B, st, t)) for t in range(n)])
