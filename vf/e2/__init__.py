"""pysched (engine E2): Python source of the real miros kernels -> step machine -> bit-vector bounded model checking over
thread schedules with z3.  See DESIGN.md section 5.

  front.py    AST of the real functions (re-read from the imported /repo modules on every run) -> IR
  models.py   model objects (queue.Queue, deque, threading.Event, RLock, Thread, plain attribute, dict registry)
  ir.py       IR nodes, expression evaluation over two back ends (python ints / z3 bit-vectors)
  machine.py  step semantics shared by the concrete interpreter and the z3 encoder
  bmc.py      unrolling, safety / deadlock / fair-lasso / bound-adequacy queries
  replay.py   forced-schedule execution of the real functions with real threads and proxy objects
"""
