"""Real-code side of the E2 scenarios: build the real objects with proxies, run the real functions in real threads under a
Director following a schedule, and report what the real objects show.  Used for (a) replaying solver counterexamples before
anything is reported and (b) differential validation of translator + models on generated schedules."""
import random
import threading
import time

from vf.e2 import replay as R
from vf.e2 import ir
from vf.e2.check import triples, find_loop


# ---- posting scenario (C04, C05) ------------------------------------------------------------------------------
class RealPosting:
  def __init__(self, sc, sysm, inputs):
    from vf import hosts
    self.sc, self.sysm = sc, sysm
    info = sc.info
    cap = info["capacity"]
    hsm, ao = hosts.install_stubs(capacity=cap)
    import miros.event as ev
    self.ev = ev
    vis, self.visible_ops, _ = R.visibility_from(sysm)
    self.d = R.Director(vis)
    self.log = []
    rs = ev.return_status
    signals = ev.signals
    hp = info.get("handler_post_event")
    hpost = inputs.get("in.hpost", 0)
    kinds = {e: inputs.get(v, 0) for e, v in info["kinds"].items()}
    self.kinds = kinds
    self.events = {e: ev.Event(signal="E", payload=e) for e in info["events"]}
    first = info["events"][0]
    me = self

    def state(chart, e):
      if e.signal == signals.E:
        me.log.append(e.payload)
        if hp and hpost and e.payload == first:
          if kinds[hp]:
            chart.post_lifo(me.events[hp])
          else:
            chart.post_fifo(me.events[hp])
        return rs.HANDLED
      if e.signal in (signals.ENTRY_SIGNAL, signals.INIT_SIGNAL, signals.EXIT_SIGNAL):
        return rs.HANDLED
      chart.temp.fun = chart.top
      return rs.SUPER
    self.obj = ao.ActiveObject(name="replay")
    self.obj.start_at(state)
    D, Q = info["D"], info["Q"]
    ld = self.obj.locking_deque
    ld.deque = R.make_deque(self.d, "D", cap, [self.events[i] for i in D.items0])
    ld.locking_queue = R.make_queue(self.d, "Q", cap)
    for _ in range(Q.count0):
      ld.locking_queue.put("ready")
    self.task = R.make_event(self.d, "task_event", True)
    self.fabric = R.make_event(self.d, "fabric_event", True)
    self.obj.activeobject_task_event = self.task
    # which events does each poster post (same assignment as scenarios.posting)
    R.auto_proxy(self.d, sc, {"active_object": self.obj, "locking_deque": self.obj.locking_deque})      # attributes the translator bound by itself
    self.bodies = {}
    ei = 0
    posts = sc.info["posts"]
    for p in info["posters"]:
      mine = info["events"][ei:ei + posts[p]]
      ei += posts[p]
      self.bodies[p] = self.poster_body(mine)
    self.bodies[info["consumer"]] = lambda: self.obj.run_event(self.task, self.fabric, self.obj.queue)

  def poster_body(self, mine):
    def body():
      for e in mine:
        if self.kinds[e]:
          self.obj.post_lifo(self.events[e])
        else:
          self.obj.post_fifo(self.events[e])
    return body

  def observe(self, threads):
    import collections
    import queue
    ld = self.obj.locking_deque
    return {
      "dispatch_log": list(self.log),
      "deque": [e.payload for e in collections.deque.__iter__(ld.deque)],
      "tokens": queue.Queue.qsize(ld.locking_queue),
      "posters_finished": [p for p in self.sc.info["posters"] if p in self.d.finished],
      "waiting_at": {str(t): list(w) for t, w in self.d.waiting.items()},
    }


def model_dispatch_log(infos, states):
  out = []
  for i, info in enumerate(infos):
    if info["op"] == "popleft" and info["outcome"] == "ok":
      before, after = states[i], states[i + 1]
      out.append(before["D.c0"])
  return out


def posting_replay(sc, sysm, res, states, infos, loop):
  """replay a solver schedule on the real ActiveObject; for a lasso the loop is repeated 50 more times"""
  inputs = {k: v for k, v in res["inputs"].items() if k.startswith("in.")}
  real = RealPosting(sc, sysm, inputs)
  tr = triples(infos)
  lp = None
  if loop:
    # loop indices are over states (steps incl. start steps): convert to indices over visible triples
    idx = [k for k, i in enumerate(infos) if i["op"] != "<begin>"]
    a = len([k for k in idx if k < loop[0]])
    b = len([k for k in idx if k < loop[1]])
    lp = (a, b)
  ok, detail, threads = R.run_threads(real.d, real.bodies, tr, loop=lp, loop_times=50 if lp else 0)
  time.sleep(0.05)
  obs = real.observe(threads)
  out = {"matched": ok, "detail": detail, "real": obs, "model_dispatch_log": model_dispatch_log(infos, states),
         "visible_operations_replayed": len(real.d.log), "loop_rounds_replayed": 51 if (lp and ok) else 0}
  real.d.release_all()
  for t in threads.values():
    t.join(timeout=0.5)
  return out


def posting_differential(scn_kwargs, n, seed=0, max_steps=120):
  """generated schedules executed on the concrete interpreter of the translated step machine AND on the real functions (real
  threads, proxies); every visible operation must occur in the same order and the observable results must agree"""
  from vf.e2.check import build
  rnd = random.Random(seed)
  bad = []
  ran = 0
  ops = 0
  for k in range(n):
    sc, sysm = build("posting", scn_kwargs)
    inputs = {v: rnd.randint(lo, hi) for v, (lo, hi) in sc.sym_inputs.items()}
    st = sysm.initial(inputs)
    infos, states = [], [dict(st)]
    for _ in range(max_steps):
      en = sysm.enabled_concrete(st)
      if not en:
        break
      tid = rnd.choice(en)
      st, info = sysm.step_concrete(st, tid)
      infos.append(info)
      states.append(dict(st))
    real = RealPosting(sc, sysm, inputs)
    tr = triples(infos)
    ok, detail, threads = R.run_threads(real.d, real.bodies, tr)
    time.sleep(0.02)
    obs = real.observe(threads)
    ran += 1
    ops += len(tr)
    want_log = model_dispatch_log(infos, states)
    want_deque = [st["D.c%d" % i] for i in range(st["D.len"])]
    if not ok:
      bad.append({"schedule": k, "why": detail})
    elif obs["dispatch_log"] != want_log or obs["deque"] != want_deque or obs["tokens"] != st["Q.cnt"]:
      bad.append({"schedule": k, "why": "observations differ", "real": obs, "model": {"dispatch_log": want_log, "deque": want_deque, "tokens": st["Q.cnt"]}})
    real.d.release_all()
    for t in threads.values():
      t.join(timeout=0.5)
  return {"schedules": ran, "visible_operations": ops, "disagreements": bad}


# ---- singleton scenario (C30) ----------------------------------------------------------------------------------
class RealSingleton:
  def __init__(self, sc, sysm):
    import miros.singleton as sg
    vis, _, _ = R.visibility_from(sysm)
    self.d = d = R.Director(vis)
    self.results = {}
    made = []

    class Probe:
      def __init__(self):
        d.before("klass", "new")
        made.append(self)
    self.made = made
    self.dec = sg.SingletonDecorator(Probe)
    for k in sc.info["lock_attrs"]:
      setattr(self.dec, k, R.LockProxy(d, "decorator.%s" % k, getattr(self.dec, k)))
    R.auto_proxy(d, sc, {"decorator": self.dec})
    R.shared_attr(d, self.dec, "instance", "instance")
    # locks made on demand: the attribute is shared, and the module's lock constructor hands out proxies in allocation order
    self.patched = {}
    lazy = sc.info.get("lazy_attrs") or []
    for k in lazy:
      R.shared_attr(d, self.dec, k, "decorator.%s" % k)
    if lazy:
      import threading
      count = [0]

      def make_lock(*a, **kw):
        d.before("lock_alloc", "new")
        i = count[0]
        count[0] += 1
        return R.LockProxy(d, "lazy_lock%d" % i)
      for name, val in list(vars(sg).items()):
        if val is threading.RLock or val is threading.Lock:
          self.patched[name] = val
          setattr(sg, name, make_lock)
    self.sg = sg
    self.bodies = {t: self.body(t) for t in range(sc.info["nthreads"])}

  def restore(self):
    for name, val in self.patched.items():
      setattr(self.sg, name, val)

  def body(self, t):
    def run():
      self.results[t] = self.dec()
    return run


def singleton_replay(sc, sysm, res, states, infos, loop):
  real = RealSingleton(sc, sysm)
  ok, detail, threads = R.run_threads(real.d, real.bodies, triples(infos))
  time.sleep(0.02)
  real.d.release_all()
  for t in threads.values():
    t.join(timeout=0.5)
  real.restore()
  ids = {t: id(o) for t, o in real.results.items()}
  return {"matched": ok, "detail": detail, "real": {"objects_constructed": len(real.made), "distinct_objects_returned": len(set(ids.values())),
                                                   "callers_finished": sorted(real.results)}}


def singleton_differential(nthreads, n, seed=0):
  from vf.e2.check import build
  rnd = random.Random(seed)
  bad = []
  ops = 0
  for k in range(n):
    sc, sysm = build("singleton", dict(nthreads=nthreads))
    st = sysm.initial()
    infos = []
    for _ in range(80):
      en = sysm.enabled_concrete(st)
      if not en:
        break
      st, info = sysm.step_concrete(st, rnd.choice(en))
      infos.append(info)
    real = RealSingleton(sc, sysm)
    ok, detail, threads = R.run_threads(real.d, real.bodies, triples(infos))
    time.sleep(0.01)
    real.d.release_all()
    for t in threads.values():
      t.join(timeout=0.5)
    real.restore()
    ops += len(triples(infos))
    model_distinct = len({st["res.%d" % t] for t in range(nthreads)})
    real_distinct = len({id(o) for o in real.results.values()})
    if not ok:
      bad.append({"schedule": k, "why": detail})
    elif model_distinct != real_distinct or len(real.made) != st["klass.next"] - 1:
      bad.append({"schedule": k, "why": "model: %d distinct results, %d constructed; real: %d distinct, %d constructed" % (
        model_distinct, st["klass.next"] - 1, real_distinct, len(real.made))})
  return {"schedules": n, "visible_operations": ops, "disagreements": bad}


# ---- thread-safe attribute scenario (C27) ---------------------------------------------------------------------------
class RealTSA:
  def __init__(self, sc, sysm):
    import miros.thread_safe_attributes as tsmod
    from vf.e2 import tsa_statements as S
    vis, _, _ = R.visibility_from(sysm)
    self.d = d = R.Director(vis)

    class Thing(metaclass=tsmod.MetaThreadSafeAttributes):
      _attributes = ["x"]
    self.o = Thing()
    desc = Thing.__dict__["x"]
    for k in sc.info["lock_attrs"]:
      setattr(desc, k, R.LockProxy(d, "desc.%s" % k, getattr(desc, k)))
    R.auto_proxy(d, sc, {"desc": desc})
    for a in sc.info["shared_attrs"]:
      if not hasattr(desc, a):
        setattr(desc, a, None)
      R.shared_attr(d, desc, a, "desc." + a)
    self.desc = desc
    self.o.__dict__ = R.make_dict(d, "vals")
    self.same_names = bool(sc.info.get("same_names"))
    self.errors = {}
    self.reads = {}
    self.bodies = {}
    for t, kind in enumerate(sc.info["kinds"]):
      self.bodies[t] = self.body(t, getattr(S, "%s_%d" % (kind, t)))

  def body(self, t, fn):
    same = self.same_names

    def run():
      threading.current_thread().name = "worker" if same else "worker-%d" % t
      try:
        self.reads[t] = fn(self.o)
      except BaseException as ex:      # noqa: the failure is the observation
        self.errors[t] = "%s: %s" % (type(ex).__name__, ex)
    return run

  def observe(self):
    vals = dict.copy(self.o.__dict__)
    lock_free = {}
    for k in [a for a in vars(self.desc) if isinstance(vars(self.desc)[a], R.LockProxy)]:
      lp = vars(self.desc)[k]
      got = [False]

      def probe():
        got[0] = lp.real.acquire(False)
        if got[0]:
          lp.real.release()
      th = threading.Thread(target=probe)
      th.start()
      th.join()
      lock_free[k] = got[0]
    return {"errors": {str(k): v for k, v in self.errors.items()}, "value": (list(vals.values()) or [0])[0], "lock_acquirable_by_another_thread": lock_free,
            "finished": sorted(self.d.finished)}


def tsa_replay(sc, sysm, res, states, infos, loop):
  real = RealTSA(sc, sysm)
  ok, detail, threads = R.run_threads(real.d, real.bodies, triples(infos))
  time.sleep(0.05)
  obs = real.observe()
  real.d.release_all()
  for t in threads.values():
    t.join(timeout=0.5)
  return {"matched": ok, "detail": detail, "real": obs}


def tsa_differential(kinds, n, seed=0):
  from vf.e2.check import build
  rnd = random.Random(seed)
  bad = []
  ops = 0
  for k in range(n):
    sc, sysm = build("tsa", dict(kinds=kinds))
    st = sysm.initial()
    infos = []
    for _ in range(80):
      en = sysm.enabled_concrete(st)
      if not en:
        break
      st, info = sysm.step_concrete(st, rnd.choice(en))
      infos.append(info)
    real = RealTSA(sc, sysm)
    ok, detail, threads = R.run_threads(real.d, real.bodies, triples(infos))
    time.sleep(0.02)
    obs = real.observe()
    real.d.release_all()
    for t in threads.values():
      t.join(timeout=0.5)
    ops += len(triples(infos))
    model_value = 0 if st["vals.size"] == 0 else st["vals.v0"]
    model_crashed = sorted(p.tid for p in sysm.programs if sysm.prog(p.tid).nodes[st["pc.%d" % p.tid]].kind.startswith("crashed")
                           ) if all(isinstance(sysm.prog(p.tid).nodes[st["pc.%d" % p.tid]], ir.End) for p in sysm.programs) else None
    if not ok:
      bad.append({"schedule": k, "why": detail})
    elif obs["value"] != model_value or (model_crashed is not None and sorted(int(x) for x in obs["errors"]) != model_crashed):
      bad.append({"schedule": k, "why": "model value %s crashed %s; real %s" % (model_value, model_crashed, obs)})
  return {"schedules": n, "visible_operations": ops, "disagreements": bad}


# ---- stopping scenario (C12, C11 'for good') ---------------------------------------------------------------------------
class ThreadProxy:
  """stands for ao.thread: join/is_alive report to the director, then act on the real consumer thread"""

  def __init__(self, director, name):
    self.d, self.name = director, name
    self.real = None

  def join(self, timeout=None):
    self.d.before(self.name, "join")
    if self.real is threading.current_thread():
      raise RuntimeError("cannot join current thread")
    if self.real is not None:
      self.real.join(timeout if self.d.free else 5)

  def is_alive(self):
    self.d.before(self.name, "is_alive")
    return self.real is not None and self.real.is_alive()


class RealStopping:
  def __init__(self, sc, sysm):
    from vf import hosts
    info = sc.info
    cap = info["capacity"]
    hsm, ao = hosts.install_stubs(capacity=cap)
    import miros.event as ev
    vis, _, _ = R.visibility_from(sysm)
    self.d = d = R.Director(vis)
    self.info = info
    self.log = []
    self.marks = {}
    rs, signals = ev.return_status, ev.signals
    me = self
    self.pend = [ev.Event(signal="P%d" % i, payload=i) for i in range(info["pending"])]

    def state(chart, e):
      if e.signal in (signals.ENTRY_SIGNAL, signals.INIT_SIGNAL, signals.EXIT_SIGNAL):
        return rs.HANDLED
      if e.signal_name.startswith(("P", "A", "B")) and len(e.signal_name) <= 2:
        me.log.append((e.signal_name, len(d.log)))
        if info["handler_stop"] and me.pend and e is me.pend[0]:
          chart.stop()
          me.marks["handler_stopped"] = len(d.log)
        return rs.HANDLED
      if e.signal == signals.STOP_ACTIVE_OBJECT_SIGNAL:
        # the stop request itself dispatched as an ordinary event (a full queue rotated it to the front after the object's thread had
        # looked at the front): a run-to-completion step like any other, the model counts it too
        me.log.append((e.signal_name, len(d.log)))
      chart.temp.fun = chart.top
      return rs.SUPER
    self.obj = obj = ao.ActiveObject(name="replay")
    obj.start_at(state)
    ld = obj.locking_deque
    ld.deque = R.make_deque(d, "D", cap, list(self.pend))
    ld.locking_queue = R.make_queue(d, "Q", cap)
    for _ in self.pend:
      ld.locking_queue.put("ready")
    self.task = R.make_event(d, "task_event", True)
    self.fabric = R.make_event(d, "fabric_event", True)
    obj.activeobject_task_event = self.task
    obj.posted_events_queue = R.make_deque(d, "tracked", cap)
    self.thread_proxy = ThreadProxy(d, "ao.thread")
    obj.thread = self.thread_proxy
    # timed sources through the real API: the timer thread stand-in records the real closure and its spec
    counter = [0]
    real_event_cls = ao.ThreadEvent

    def new_flag():
      i = counter[0]
      counter[0] += 1
      return R.make_event(d, "source%d.run" % i, False)
    ao.ThreadEvent = new_flag

    class FakeTime:
      @staticmethod
      def sleep(p):
        d.before("time", "sleep")
    ao.time = FakeTime
    self.sources = []
    self.ids = []
    n0 = len(hosts.SimThread.registry)
    for i in range(info["sources"]):
      name = "A" if (i == 0 or not info["other_source"]) else "B"
      e = ev.Event(signal=name)
      self.ids.append(obj.post_fifo(e, period=1, times=info["times"], deferred=info["deferred"]))
      self.sources.append(hosts.SimThread.registry[-1])
    ao.ThreadEvent = real_event_cls
    self.restore = lambda: setattr(ao, "time", __import__("time"))
    self.ev_a = ev.Event(signal="A")
    self.flags = [t.args[0].task_run_event for t in self.sources]
    R.auto_proxy(self.d, sc, {"active_object": self.obj, "locking_deque": self.obj.locking_deque})      # attributes the translator bound by itself
    self.bodies = {0: self.caller_body(), 1: self.consumer_body()}
    for i, tt in enumerate(info["timer_tids"]):
      self.bodies[tt] = (lambda t=self.sources[i]: t.target(*t.args))

  def caller_body(self):
    info = self.info

    def body():
      if info["handler_stop"]:
        return
      if info["action"] == "stop":
        self.obj.stop()
      elif info["action"] == "cancel_event":
        # an equal copy of the id, as a caller that got it over a network would hold
        self.obj.cancel_event(type(self.ids[0])(str(self.ids[0])) if not isinstance(self.ids[0], str) else "".join(list(self.ids[0])))
      else:
        self.obj.cancel_events(self.ev_a)
      self.marks["returned"] = len(self.d.log)
    return body

  def consumer_body(self):
    def body():
      self.thread_proxy.real = threading.current_thread()
      self.obj.run_event(self.task, self.fabric, self.obj.queue)
      self.d.before("ao.thread", "finish")
    return body

  def observe(self):
    import collections
    log = list(self.d.log)
    ret = self.marks.get("returned")
    info = self.info
    watched = [info["timer_tids"][i] for i in range(info["sources"])
               if info["action"] == "stop" or i == 0 or (info["action"] == "cancel_events" and not info["other_source"])]
    timer_inserts = [k for k, (t, tgt, op) in enumerate(log) if t in watched and tgt == "D" and op in ("append", "appendleft")]
    return {"caller_returned_at_op": ret, "timer_inserts_at_ops": timer_inserts,
            "timer_insert_after_return": bool(ret is not None and any(k >= ret for k in timer_inserts)),
            "dispatches": [(n, k) for (n, k) in self.log],
            "dispatch_after_return": bool(ret is not None and any(k >= ret for (_n, k) in self.log)),
            "dispatch_after_handler_stop": bool("handler_stopped" in self.marks and any(k > self.marks["handler_stopped"] for (_n, k) in self.log)),
            "source_flags_up": [threading.Event.is_set(f) for f in self.flags],
            "tracked": len(list(collections.deque.__iter__(self.obj.posted_events_queue))),
            "finished_threads": sorted(self.d.finished), "errors": {}}


def stopping_replay(sc, sysm, res, states, infos, loop):
  real = RealStopping(sc, sysm)
  ok, detail, threads = R.run_threads(real.d, real.bodies, triples(infos))
  time.sleep(0.05)
  obs = real.observe()
  real.d.release_all()
  for f in real.flags:
    threading.Event.clear(f)
  threading.Event.clear(real.task)
  for t in threads.values():
    t.join(timeout=0.3)
  real.restore()
  return {"matched": ok, "detail": detail, "real": obs}


def stopping_differential(kwargs, n, seed=0):
  from vf.e2.check import build
  rnd = random.Random(seed)
  bad = []
  ops = 0
  for k in range(n):
    sc, sysm = build("stopping", kwargs)
    st = sysm.initial()
    infos = []
    for _ in range(90):
      en = sysm.enabled_concrete(st)
      if not en:
        break
      st, info = sysm.step_concrete(st, rnd.choice(en))
      infos.append(info)
    real = RealStopping(sc, sysm)
    ok, detail, threads = R.run_threads(real.d, real.bodies, triples(infos))
    time.sleep(0.02)
    obs = real.observe()
    real.d.release_all()
    for f in real.flags:
      threading.Event.clear(f)
    threading.Event.clear(real.task)
    for t in threads.values():
      t.join(timeout=0.3)
    real.restore()
    ops += len(triples(infos))
    flags_model = [bool(st[f + ".flag"]) for f in sc.info["flags"]]
    if not ok:
      bad.append({"schedule": k, "why": detail})
    elif obs["source_flags_up"] != flags_model or obs["tracked"] != st["tracked.len"] or len(obs["dispatches"]) != st["g.dispatched"]:
      bad.append({"schedule": k, "why": "model flags %s tracked %s dispatched %s; real %s" % (flags_model, st["tracked.len"], st["g.dispatched"], obs)})
  return {"schedules": n, "visible_operations": ops, "disagreements": bad}


# ---- registry scenario (C25 threads) ----------------------------------------------------------------------------------------
class RealRegistry:
  def __init__(self, sc, sysm):
    import collections
    from vf import core
    import miros.event as ev
    vis, _, _ = R.visibility_from(sysm)
    self.d = d = R.Director(vis)
    self.ev = ev
    name = "signals"
    base = ev.SignalSource

    class ValuesView:
      def __init__(self, reg):
        self.reg = reg

      def __contains__(self, x):
        d.before(name, "values_contains")
        return x in collections.OrderedDict.values(self.reg)

      def __iter__(self):
        d.before(name, "snapshot_values")
        return iter(list(collections.OrderedDict.values(self.reg)))

    class KeysView:
      def __init__(self, reg):
        self.reg = reg

      def __iter__(self):
        d.before(name, "snapshot_keys")
        return iter(list(collections.OrderedDict.keys(self.reg)))

      def __len__(self):
        return collections.OrderedDict.__len__(self.reg)

    class ItemsView:
      def __init__(self, reg):
        self.reg = reg

      def __iter__(self):
        # a for statement asks for the iterator with GET_ITER and then advances it one bytecode at a time (other threads can run in
        # between); list(view) consumes it inside one C call (an atomic snapshot)
        import dis
        import sys
        fr = sys._getframe(1)
        stepwise = dis.opname[fr.f_code.co_code[fr.f_lasti]] == "GET_ITER"
        if not stepwise:
          d.before(name, "snapshot_items")
          return iter(list(collections.OrderedDict.items(self.reg)))
        return self.steps()

      def steps(self):
        d.before(name, "iter")
        it = iter(collections.OrderedDict.items(self.reg))
        while True:
          d.before(name, "next")
          try:
            yield next(it)
          except StopIteration:
            return

      def __len__(self):               # list(items()) asks for a length hint, then iterates in C: one atomic snapshot
        return collections.OrderedDict.__len__(self.reg)

    class Proxy(base):
      def __contains__(self, k):
        d.before(name, "contains")
        return collections.OrderedDict.__contains__(self, k)

      def __setitem__(self, k, v):
        d.before(name, "setitem")
        return collections.OrderedDict.__setitem__(self, k, v)

      def __getitem__(self, k):
        d.before(name, "getitem")
        return collections.OrderedDict.__getitem__(self, k)

      def __len__(self):
        d.before(name, "__len__")
        return collections.OrderedDict.__len__(self)

      def values(self):
        return ValuesView(self)

      def keys(self):
        return KeysView(self)

      def items(self):
        return ItemsView(self)
    reg = Proxy.__new__(Proxy)
    collections.OrderedDict.__init__(reg)
    collections.OrderedDict.__setitem__(reg, "ENTRY_SIGNAL", 1)
    collections.OrderedDict.__setitem__(reg, "EXIT_SIGNAL", 2)
    reg.__dict__["highest_inner_signal"] = 2
    self.reg = reg
    self.saved = (ev.signals, ev.Signal.instance)
    ev.signals = reg
    ev.Signal.instance = reg
    self.locks = []
    import importlib
    for (modname, gname, mname) in sc.global_locks:
      mod = importlib.import_module(modname)
      self.locks.append((mod, gname, getattr(mod, gname)))
      setattr(mod, gname, R.LockProxy(d, mname, getattr(mod, gname, None)))
    self.results, self.errors = {}, {}
    R.auto_proxy(d, sc, {"signals": reg})
    self.bodies = {t: self.body(t, kind, arg) for t, (kind, arg) in enumerate(sc.info["ops"])}

  def body(self, t, kind, arg):
    def run():
      try:
        if kind == "append":
          self.reg.append(arg)
          self.results[t] = self.reg[arg]
        elif kind == "name_for":
          self.results[t] = self.reg.name_for_signal(arg)
        elif kind == "attr":
          self.results[t] = getattr(self.reg, arg)
        else:
          e = self.ev.Event(signal=arg)
          self.results[t] = (e.signal_name, e.signal)
      except BaseException as ex:     # noqa: the failure is the observation
        self.errors[t] = "%s: %s" % (type(ex).__name__, ex)
    return run

  def restore(self):
    self.ev.signals, self.ev.Signal.instance = self.saved
    for (mod, gname, real) in self.locks:
      setattr(mod, gname, real)

  def observe(self):
    import collections
    return {"registry": list(collections.OrderedDict.items(self.reg)), "results": {str(k): v for k, v in self.results.items()},
            "errors": {str(k): v for k, v in self.errors.items()}, "finished": sorted(self.d.finished)}


def registry_replay(sc, sysm, res, states, infos, loop):
  real = RealRegistry(sc, sysm)
  try:
    ok, detail, threads = R.run_threads(real.d, real.bodies, triples(infos))
    time.sleep(0.03)
    obs = real.observe()
    real.d.release_all()
    for t in threads.values():
      t.join(timeout=0.5)
  finally:
    real.restore()
  return {"matched": ok, "detail": detail, "real": obs}


def registry_differential(ops, n, seed=0):
  from vf.e2.check import build
  rnd = random.Random(seed)
  bad = []
  nops = 0
  for k in range(n):
    sc, sysm = build("registry", dict(ops=ops))
    st = sysm.initial()
    infos = []
    for _ in range(80):
      en = sysm.enabled_concrete(st)
      if not en:
        break
      st, info = sysm.step_concrete(st, rnd.choice(en))
      infos.append(info)
    real = RealRegistry(sc, sysm)
    try:
      ok, detail, threads = R.run_threads(real.d, real.bodies, triples(infos))
      time.sleep(0.01)
      obs = real.observe()
      real.d.release_all()
      for t in threads.values():
        t.join(timeout=0.5)
    finally:
      real.restore()
    nops += len(triples(infos))
    codes = {v: k for k, v in sc.info["codes"].items()}
    model_reg = [(codes.get(st["signals.k%d" % i], st["signals.k%d" % i]), st["signals.v%d" % i]) for i in range(st["signals.size"])]
    if not ok:
      bad.append({"schedule": k, "why": detail})
    elif model_reg != obs["registry"]:
      bad.append({"schedule": k, "why": "model registry %s, real %s" % (model_reg, obs["registry"])})
  return {"schedules": n, "visible_operations": nops, "disagreements": bad}


# ---- fabric_start scenario (C13 under concurrent calls) ---------------------------------------------------------------------------
class RealFabricStart:
  def __init__(self, sc, sysm):
    import queue as _queue
    from vf import core
    core.fresh_miros()
    import miros.activeobject as ao
    self.ao = ao
    vis, _, _ = R.visibility_from(sysm)
    self.d = d = R.Director(vis)
    info = sc.info
    ncallers = info["ncallers"]
    made = []
    me = self

    class PoolThread:
      """stands for threading.Thread inside miros.activeobject: creation, start and is_alive report to the director; start() runs the
      real target (the real delivery loop) in a real thread"""

      def __init__(self, target=None, args=(), kwargs=None, daemon=None, name=None):
        d.before("thread_alloc", "new")
        self.index = len(made)
        made.append(self)
        self.target, self.args = target, args
        self.real = None
        self.kind = getattr(target, "__name__", "")

      def start(self):
        d.before("pool%d" % self.index, "start")
        tid = ncallers + self.index

        def run():
          d.register_current(tid)
          try:
            self.target(*self.args)
            d.before("pool%d" % self.index, "finish")
          finally:
            d.done(tid)
        self.real = threading.Thread(target=run, daemon=True)
        self.real.start()

      def is_alive(self):
        d.before("pool%d" % self.index, "is_alive")
        return self.real is not None and self.real.is_alive()

      def join(self, timeout=None):
        d.before("pool%d" % self.index, "join")
        if self.real is not None:
          self.real.join(5)
    self.made = made
    self.saved_thread = ao.Thread
    ao.Thread = PoolThread

    def pq(name):
      return R.make_pq(d, name)
    self.fab = fab = ao.ActiveFabricSource()
    fab.fifo_fabric_queue = pq("fifo_queue")
    fab.lifo_fabric_queue = pq("lifo_queue")
    for q, n in zip((fab.fifo_fabric_queue, fab.lifo_fabric_queue), info.get("queued", (0, 0))):
      for _ in range(n):      # publications nobody subscribed to, waiting since before the callers begin
        _queue.PriorityQueue.put(q, ao.FabricEvent(ao.HsmEvent(signal="NOBODY_SUBSCRIBED"), priority=5))
    ev = R.make_event(d, "fabric_event", False)
    ao.FiberThreadEvent.instance = ev
    fab.fabric_task_event = ev
    self.event = ev
    for k in info["lock_attrs"]:
      setattr(fab, k, R.LockProxy(d, "fabric.%s" % k, getattr(fab, k)))
    R.shared_attr(d, fab, "fifo_thread", "fabric.fifo_thread")
    R.shared_attr(d, fab, "lifo_thread", "fabric.lifo_thread")
    self.results, self.errors = {}, {}
    R.auto_proxy(self.d, sc, {"fabric": self.fab})      # attributes the translator bound by itself
    self.bodies = {t: self.body(t, script) for t, script in enumerate(info["scripts"])}

  def body(self, t, script):
    def run():
      try:
        for call in script:
          r = getattr(self.fab, call)()
          if call == "is_alive":
            self.results[t] = bool(r)
      except BaseException as ex:     # noqa
        self.errors[t] = "%s: %s" % (type(ex).__name__, ex)
    return run

  def observe(self):
    alive = [(p.index, p.kind) for p in self.made if p.real is not None and p.real.is_alive()]
    held = {"fifo": getattr(self.fab.__dict__.get("_vf_real_fifo_thread"), "index", None), "lifo": getattr(self.fab.__dict__.get("_vf_real_lifo_thread"), "index", None)}
    return {"threads_created": [(p.index, p.kind) for p in self.made], "threads_running": alive, "handles_held": held,
            "errors": {str(k): v for k, v in self.errors.items()}, "is_alive_results": {str(k): v for k, v in self.results.items()},
            "callers_finished": sorted(t for t in self.d.finished if t < len(self.bodies))}

  def cleanup(self, threads):
    self.d.release_all()
    threading.Event.clear(self.event)
    import miros.activeobject as ao
    for q in (self.fab.fifo_fabric_queue, self.fab.lifo_fabric_queue):
      for _ in range(len(self.made) + 1):
        q.put(ao.FabricEvent(ao.HsmEvent(signal="WAKE_UP"), priority=1))
    for t in threads.values():
      t.join(timeout=0.3)
    for p in self.made:
      if p.real is not None:
        p.real.join(timeout=0.3)
    ao.Thread = self.saved_thread


def fabric_start_replay(sc, sysm, res, states, infos, loop):
  real = RealFabricStart(sc, sysm)
  try:
    ok, detail, threads = R.run_threads(real.d, real.bodies, triples(infos))
    time.sleep(0.05)
    obs = real.observe()
  finally:
    real.cleanup(threads if "threads" in dir() else {})
  return {"matched": ok, "detail": detail, "real": obs}


def fabric_start_differential(kwargs, n, seed=0):
  from vf.e2.check import build
  rnd = random.Random(seed)
  bad = []
  ops = 0
  for k in range(n):
    sc, sysm = build("fabric_start", kwargs)
    st = sysm.initial()
    infos = []
    for _ in range(120):
      en = sysm.enabled_concrete(st)
      if not en:
        break
      st, info = sysm.step_concrete(st, rnd.choice(en))
      infos.append(info)
    real = RealFabricStart(sc, sysm)
    threads = {}
    try:
      ok, detail, threads = R.run_threads(real.d, real.bodies, triples(infos))
      time.sleep(0.03)
      obs = real.observe()
    finally:
      real.cleanup(threads)
    ops += len(triples(infos))
    model_running = sorted(j for j in range(sc.info["pool"]) if st["pool%d.st" % j] == 1)
    if not ok:
      bad.append({"schedule": k, "why": detail})
    elif sorted(i for i, _ in obs["threads_running"]) != model_running:
      bad.append({"schedule": k, "why": "model running %s, real %s" % (model_running, obs["threads_running"])})
  return {"schedules": n, "visible_operations": ops, "disagreements": bad}


# ---- rejecting scenario (C31 under every interleaving) ----------------------------------------------------------------------------
class RealRejecting:
  def __init__(self, sc, sysm):
    from vf import hosts
    info = sc.info
    cap = info["capacity"]
    hsm, ao = hosts.install_stubs(capacity=4)
    import miros.event as ev
    vis, _, _ = R.visibility_from(sysm)
    self.d = d = R.Director(vis)
    self.info = info
    self.ao = ao
    rs, signals = ev.return_status, ev.signals
    self.log = []
    me = self

    def state(chart, e):
      if e.signal in (signals.ENTRY_SIGNAL, signals.INIT_SIGNAL, signals.EXIT_SIGNAL):
        return rs.HANDLED
      if e.signal_name.startswith(("W_", "P")):
        me.log.append(e.signal_name)
        return rs.HANDLED
      chart.temp.fun = chart.top
      return rs.SUPER
    ao.ActiveObject.QUEUE_SIZE = cap
    self.obj = obj = ao.ActiveObject(name="replay")
    obj.start_at(state)
    ld = obj.locking_deque
    self.pend = [ev.Event(signal="P%d" % i) for i in range(info["pending"])]
    ld.deque = R.make_deque(d, "D", 4, list(self.pend))
    ld.locking_queue = R.make_queue(d, "Q", 4)
    for _ in self.pend:
      ld.locking_queue.put("ready")
    self.task = R.make_event(d, "task_event", True)
    self.fabric = R.make_event(d, "fabric_event", True)
    obj.activeobject_task_event = self.task
    obj.posted_events_queue = R.make_deque(d, "tracked", cap)
    counter = [0]
    self.real_event_cls = ao.ThreadEvent
    self.real_pp = ao.pp
    ao.pp = lambda x: None

    def old_flag():
      i = counter[0]
      counter[0] += 1
      return R.make_event(d, "old%d.run" % i, False)
    ao.ThreadEvent = old_flag

    class FakeTime:
      @staticmethod
      def sleep(p):
        d.before("time", "sleep")
    ao.time = FakeTime
    for i in range(info.get("existing", cap)):
      obj.post_fifo(ev.Event(signal="W_OLD%d" % i), period=5, times=0, deferred=True)     # thread stand-ins: never run
    self.old_flags = [r.task_run_event for r in obj.posted_events_queue]
    self.new_flags = []

    def new_flag():
      f = R.make_event(d, "new.run", False)
      self.new_flags.append(f)
      return f
    ao.ThreadEvent = new_flag
    made = []

    class NewThread:
      def __init__(self, target=None, args=(), kwargs=None, daemon=None, name=None):
        self.target, self.args = target, args
        self.real = None
        made.append(self)

      def start(self):
        d.before("new.thread", "start")

        def run():
          d.register_current(2)
          try:
            self.target(*self.args)
            d.before("new.thread", "finish")
          finally:
            d.done(2)
        self.real = threading.Thread(target=run, daemon=True)
        self.real.start()

      def is_alive(self):
        return self.real is not None and self.real.is_alive()
    self.made = made
    self.saved_thread = ao.Thread
    ao.Thread = NewThread
    self.ev_new = ev.Event(signal="W_REJECTED")
    self.outcome = {}
    R.auto_proxy(self.d, sc, {"active_object": self.obj, "locking_deque": self.obj.locking_deque})      # attributes the translator bound by itself
    self.bodies = {0: self.caller_body(), 1: lambda: obj.run_event(self.task, self.fabric, obj.queue)}
    if info.get("canceller") == "signal":
      self.handoff = R.make_event(d, "handoff", False)
      self.bodies[0] = self.caller_then_cancel_body()
      self.bodies[3] = self.cancel_signal_body()
    elif info.get("canceller"):
      ids = [r.uuid for r in obj.posted_events_queue]
      import uuid as _uuid
      key = ids[0] if info["canceller"] == "old" else _uuid.uuid4()
      self.bodies[3] = lambda: obj.cancel_event(key)

  def caller_body(self):
    info = self.info

    def body():
      post = self.obj.post_lifo if info["kind"] == "lifo" else self.obj.post_fifo
      try:
        post(self.ev_new, period=1.0, times=info["times"], deferred=info["deferred"])
        self.outcome["accepted"] = True
      except self.ao.ActiveObjectOutOfPostedEventResources:
        self.outcome["rejected"] = True
      except BaseException as ex:      # noqa
        self.outcome["error"] = "%s: %s" % (type(ex).__name__, ex)
    return body

  def caller_then_cancel_body(self):
    info = self.info

    def body():
      post = self.obj.post_lifo if info["kind"] == "lifo" else self.obj.post_fifo
      try:
        uid = post(self.ev_new, period=1.0, times=info["times"], deferred=info["deferred"])
        self.outcome["accepted"] = True
        self.handoff.wait()
        self.obj.cancel_event(uid)
        self.outcome["cancelled_by_id"] = True
      except BaseException as ex:      # noqa
        self.outcome["error"] = "%s: %s" % (type(ex).__name__, ex)
    return body

  def cancel_signal_body(self):
    def body():
      try:
        self.obj.cancel_events(self.ev_new)
        self.outcome["cancel_events_returned"] = True
        self.handoff.set()
      except BaseException as ex:      # noqa
        self.outcome["canceller_error"] = "%s: %s" % (type(ex).__name__, ex)
    return body

  def observe(self):
    import collections
    dq = list(collections.deque.__iter__(self.obj.locking_deque.deque))
    return {"outcome": dict(self.outcome), "rejected_event_in_queue": sum(1 for e in dq if e is self.ev_new),
            "rejected_event_dispatched": self.log.count("W_REJECTED"), "threads_created": len(self.made),
            "old_flags_up": [threading.Event.is_set(f) for f in self.old_flags], "new_flag_up": [threading.Event.is_set(f) for f in self.new_flags],
            "tracked": len(list(collections.deque.__iter__(self.obj.posted_events_queue)))}

  def cleanup(self, threads):
    self.d.release_all()
    for f in self.new_flags + self.old_flags:
      threading.Event.clear(f)
    threading.Event.clear(self.task)
    self.obj.locking_deque.locking_queue.put("wake")
    for t in threads.values():
      t.join(timeout=0.3)
    ao = self.ao
    ao.Thread = self.saved_thread
    ao.ThreadEvent = self.real_event_cls
    ao.pp = self.real_pp
    ao.time = __import__("time")
    ao.ActiveObject.QUEUE_SIZE = 500


def rejecting_replay(sc, sysm, res, states, infos, loop):
  real = RealRejecting(sc, sysm)
  threads = {}
  try:
    ok, detail, threads = R.run_threads(real.d, real.bodies, triples(infos))
    time.sleep(0.05)
    obs = real.observe()
  finally:
    real.cleanup(threads)
  return {"matched": ok, "detail": detail, "real": obs}


def rejecting_differential(kwargs, n, seed=0):
  from vf.e2.check import build
  rnd = random.Random(seed)
  bad = []
  ops = 0
  for k in range(n):
    sc, sysm = build("rejecting", kwargs)
    st = sysm.initial()
    infos = []
    for _ in range(80):
      en = sysm.enabled_concrete(st)
      if not en:
        break
      st, info = sysm.step_concrete(st, rnd.choice(en))
      infos.append(info)
    real = RealRejecting(sc, sysm)
    threads = {}
    try:
      ok, detail, threads = R.run_threads(real.d, real.bodies, triples(infos))
      time.sleep(0.02)
      obs = real.observe()
    finally:
      real.cleanup(threads)
    ops += len(triples(infos))
    if not ok:
      bad.append({"schedule": k, "why": detail})
    elif bool(obs["outcome"].get("rejected")) != bool(st["g.rejected"]) or obs["tracked"] != st["tracked.len"]:
      bad.append({"schedule": k, "why": "model rejected=%s tracked=%s, real %s" % (st["g.rejected"], st["tracked.len"], obs)})
  return {"schedules": n, "visible_operations": ops, "disagreements": bad}


# ---- fabric_delivery scenario (C06 / C08 under every interleaving) -----------------------------------------------------------------------
class RealFabricDelivery:
  def __init__(self, sc, sysm):
    import collections
    import queue as _queue
    from vf import core
    from vf.e2.scenarios import FABRIC_EVENTS
    core.fresh_miros()
    import miros.activeobject as ao
    import miros.event as ev
    vis, _, _ = R.visibility_from(sysm)
    self.d = d = R.Director(vis)
    self.info = info = sc.info

    def pq(name):
      return R.make_pq(d, name)

    ListProxy, registry = R.registry_proxies(d)
    self.fab = fab = ao.ActiveFabricSource()
    fab.fifo_fabric_queue = pq("fifo_queue")
    fab.lifo_fabric_queue = pq("lifo_queue")
    fab.fifo_subscriptions = registry("fifo_subscriptions")
    fab.lifo_subscriptions = registry("lifo_subscriptions")
    self.run = threading.Event()
    self.run.set()
    self.queues = [R.make_deque(d, "q%d" % i, 10) for i in range(2)]
    self.events = [ev.Event(signal=sg, payload=i) for i, (sg, _p) in enumerate(FABRIC_EVENTS)]
    self.sub_ev = {"A": ev.Event(signal="A"), "B": ev.Event(signal="B")}
    self.prios = [p for (_sg, p) in FABRIC_EVENTS]
    self.errors = {}
    R.auto_proxy(self.d, sc, {"fabric": self.fab})      # attributes the translator bound by itself
    self.bodies = {0: self.caller_body()}
    for k, kind in enumerate(info["kinds"]):
      self.bodies[1 + k] = self.delivery_body(kind)

  def caller_body(self):
    def body():
      try:
        for stp in self.info["steps"]:
          if stp[0] == "sub":
            self.fab.subscribe(self.queues[stp[1]], self.sub_ev[stp[2]], stp[3])
          else:
            self.fab.publish(self.events[stp[1]], priority=self.prios[stp[1]])
      except BaseException as ex:     # noqa
        self.errors[0] = "%s: %s" % (type(ex).__name__, ex)
    return body

  def delivery_body(self, kind):
    def body():
      try:
        if kind == "fifo":
          self.fab.thread_runner_fifo(self.run, self.fab.fifo_fabric_queue, self.fab.fifo_subscriptions)
        else:
          self.fab.thread_runner_lifo(self.run, self.fab.lifo_fabric_queue, self.fab.lifo_subscriptions)
      except R.Mismatch:
        pass
      except BaseException as ex:     # noqa
        self.errors[kind] = "%s: %s" % (type(ex).__name__, ex)
    return body

  def observe(self):
    import collections
    return {"q0": [e.payload for e in collections.deque.__iter__(self.queues[0])], "q1": [e.payload for e in collections.deque.__iter__(self.queues[1])], "errors": {str(k): v for k, v in self.errors.items()},
            "caller_finished": 0 in self.d.finished}

  def cleanup(self, threads):
    import miros.activeobject as ao
    self.run.clear()
    self.d.release_all()
    for q in (self.fab.fifo_fabric_queue, self.fab.lifo_fabric_queue):
      q.put(ao.FabricEvent(ao.HsmEvent(signal="WAKE_UP"), priority=1))
    for t in threads.values():
      t.join(timeout=0.3)


def fabric_delivery_replay(sc, sysm, res, states, infos, loop):
  real = RealFabricDelivery(sc, sysm)
  threads = {}
  try:
    ok, detail, threads = R.run_threads(real.d, real.bodies, triples(infos))
    time.sleep(0.05)
    obs = real.observe()
  finally:
    real.cleanup(threads)
  return {"matched": ok, "detail": detail, "real": obs}


def fabric_delivery_differential(kwargs, n, seed=0):
  from vf.e2.check import build
  rnd = random.Random(seed)
  bad = []
  ops = 0
  for k in range(n):
    sc, sysm = build("fabric_delivery", kwargs)
    st = sysm.initial()
    infos = []
    for _ in range(160):
      en = sysm.enabled_concrete(st)
      if not en:
        break
      st, info = sysm.step_concrete(st, rnd.choice(en))
      infos.append(info)
    real = RealFabricDelivery(sc, sysm)
    threads = {}
    try:
      ok, detail, threads = R.run_threads(real.d, real.bodies, triples(infos))
      time.sleep(0.03)
      obs = real.observe()
    finally:
      real.cleanup(threads)
    ops += len(triples(infos))
    idx = {rid: i for i, rid in enumerate(sc.info["events"])}
    model = {q: [idx.get(st["%s.c%d" % (q, i)], "?") for i in range(st["%s.len" % q])] for q in ("q0", "q1")}
    if not ok:
      bad.append({"schedule": k, "why": detail})
    elif model["q0"] != obs["q0"] or model["q1"] != obs["q1"]:
      bad.append({"schedule": k, "why": "model %s, real %s" % (model, obs)})
  return {"schedules": n, "visible_operations": ops, "disagreements": bad}


# ---- ao_pubsub scenario (C07 / C09 under every interleaving) ---------------------------------------------------------------------------------
class RealAoPubsub:
  def __init__(self, sc, sysm):
    import queue as _queue
    from vf import hosts
    info = sc.info
    hsm, ao = hosts.install_stubs(capacity=4)
    import miros.event as ev
    vis, _, _ = R.visibility_from(sysm)
    self.d = d = R.Director(vis)
    self.info = info
    self.log = []
    rs, signals = ev.return_status, ev.signals
    me = self

    def state(chart, e):
      if e.signal in (signals.ENTRY_SIGNAL, signals.INIT_SIGNAL, signals.EXIT_SIGNAL):
        return rs.HANDLED
      if e.signal_name == "NEWS" or e.signal_name.startswith("P"):
        me.log.append(e.signal_name)
        return rs.HANDLED
      chart.temp.fun = chart.top
      return rs.SUPER
    self.obj = obj = ao.ActiveObject(name="replay")
    obj.start_at(state)              # thread stand-in: started, never run by itself
    ld = obj.locking_deque
    ld.deque = R.make_deque(d, "D", 4)
    ld.locking_queue = R.make_queue(d, "Q", 4)
    self.task = R.make_event(d, "task_event", True)
    self.run = R.make_event(d, "fabric_event", True)
    obj.activeobject_task_event = self.task

    def pq(name):
      return R.make_pq(d, name)

    class ListProxy(list):
      def append(self, x):
        d.before("registries", "append")
        return list.append(self, x)

      def __iter__(self):
        i = 0
        while True:
          d.before("registries", "iter_next")
          if i >= list.__len__(self):
            return
          yield list.__getitem__(self, i)
          i += 1

    def registry(name):
      class KeysView:
        def __init__(self, dd):
          self.dd = dd

        def __contains__(self, k):
          d.before(name, "contains")
          return dict.__contains__(self.dd, k)

      class Reg(dict):
        def __contains__(self, k):
          d.before(name, "contains")
          return dict.__contains__(self, k)

        def __getitem__(self, k):
          d.before(name, "getitem")
          return dict.__getitem__(self, k)

        def __setitem__(self, k, v):
          if isinstance(v, list) and not isinstance(v, ListProxy):
            d.before("registries", "new")
            v = ListProxy(v)
          d.before(name, "setitem")
          return dict.__setitem__(self, k, v)

        def keys(self):
          return KeysView(self)
      return Reg()
    self.fab = fab = ao.ActiveFabricSource()
    fab.fifo_fabric_queue = pq("fifo_queue")
    fab.lifo_fabric_queue = pq("lifo_queue")
    fab.fifo_subscriptions = registry("fifo_subscriptions")
    fab.lifo_subscriptions = registry("lifo_subscriptions")
    obj.fabric = fab
    self.news = ev.Event(signal="NEWS")
    self.sub_ev = ev.Event(signal="NEWS")
    self.pend = [ev.Event(signal="P%d" % i) for i in range(info["pending"] + info.get("post_after", 0))]
    self.errors = {}
    R.auto_proxy(self.d, sc, {"active_object": self.obj, "locking_deque": self.obj.locking_deque, "fabric": self.fab})      # attributes the translator bound by itself
    self.bodies = {0: self.caller_body(), 1: self.guard(1, lambda: obj.run_event(self.task, self.run, obj.queue)),
                   2: self.guard(2, self.delivery)}

  def guard(self, t, fn):
    def body():
      try:
        fn()
      except R.Mismatch:
        pass
      except BaseException as ex:     # noqa
        self.errors[t] = "%s: %s" % (type(ex).__name__, ex)
    return body

  def delivery(self):
    if self.info["kind"] == "fifo":
      self.fab.thread_runner_fifo(self.run, self.fab.fifo_fabric_queue, self.fab.fifo_subscriptions)
    else:
      self.fab.thread_runner_lifo(self.run, self.fab.lifo_fabric_queue, self.fab.lifo_subscriptions)

  def caller_body(self):
    info = self.info

    def body():
      try:
        if info["subscribe_first"]:
          self.obj.subscribe(self.sub_ev, queue_type=info["kind"])
        for p in self.pend[:info["pending"]]:
          self.obj.post_fifo(p)
        if not info["subscribe_first"]:
          self.obj.subscribe(self.sub_ev, queue_type=info["kind"])
        self.obj.publish(self.news, priority=5)
        for p in self.pend[info["pending"]:]:
          self.obj.post_fifo(p)
      except BaseException as ex:     # noqa
        self.errors[0] = "%s: %s" % (type(ex).__name__, ex)
    return body

  def observe(self):
    import collections
    import queue
    ld = self.obj.locking_deque
    return {"dispatch_log": list(self.log), "deque": [e.signal_name for e in collections.deque.__iter__(ld.deque)], "tokens": queue.Queue.qsize(ld.locking_queue),
            "errors": {str(k): v for k, v in self.errors.items()}, "caller_finished": 0 in self.d.finished}

  def cleanup(self, threads):
    import miros.activeobject as ao
    threading.Event.clear(self.run)
    threading.Event.clear(self.task)
    self.d.release_all()
    for q in (self.fab.fifo_fabric_queue, self.fab.lifo_fabric_queue):
      q.put(ao.FabricEvent(ao.HsmEvent(signal="WAKE_UP"), priority=1))
    self.obj.locking_deque.locking_queue.put("wake")
    for t in threads.values():
      t.join(timeout=0.3)


def ao_pubsub_replay(sc, sysm, res, states, infos, loop):
  real = RealAoPubsub(sc, sysm)
  threads = {}
  try:
    ok, detail, threads = R.run_threads(real.d, real.bodies, triples(infos))
    time.sleep(0.05)
    obs = real.observe()
  finally:
    real.cleanup(threads)
  return {"matched": ok, "detail": detail, "real": obs}


def ao_pubsub_differential(kwargs, n, seed=0):
  from vf.e2.check import build
  rnd = random.Random(seed)
  bad = []
  ops = 0
  for k in range(n):
    sc, sysm = build("ao_pubsub", kwargs)
    st = sysm.initial()
    infos, states = [], [dict(st)]
    for _ in range(200):
      en = sysm.enabled_concrete(st)
      if not en:
        break
      st, info = sysm.step_concrete(st, rnd.choice(en))
      infos.append(info)
      states.append(dict(st))
    real = RealAoPubsub(sc, sysm)
    threads = {}
    try:
      ok, detail, threads = R.run_threads(real.d, real.bodies, triples(infos))
      time.sleep(0.03)
      obs = real.observe()
    finally:
      real.cleanup(threads)
    ops += len(triples(infos))
    names = {sc.info["news"]: "NEWS"}
    for i, rid in enumerate(sc.info["events"][1:]):
      names[rid] = "P%d" % i
    want = [names.get(x, "?") for x in model_dispatch_log(infos, states)]
    if not ok:
      bad.append({"schedule": k, "why": detail})
    elif obs["dispatch_log"] != want or obs["tokens"] != st["Q.cnt"]:
      bad.append({"schedule": k, "why": "model dispatch %s tokens %s; real %s" % (want, st["Q.cnt"], obs)})
  return {"schedules": n, "visible_operations": ops, "disagreements": bad}


# ---- publishers scenario (C08 with several publishing threads) ----------------------------------------------------------------------------
class RealPublishers:
  def __init__(self, sc, sysm):
    import itertools
    import queue as _queue
    from vf import core
    core.fresh_miros()
    import miros.activeobject as ao
    import miros.event as ev
    vis, _, _ = R.visibility_from(sysm)
    self.d = d = R.Director(vis)
    self.info = info = sc.info
    self.ao = ao
    self.undo = []
    FE = ao.FabricEvent
    for k, kind in info["class_state"].items():
      name = "FabricEvent.%s" % k
      if kind == "counter":
        old = FE.__dict__[k]
        setattr(FE, k, R.CounterProxy(d, name, 0))
        self.undo.append(lambda _k=k, _o=old: setattr(FE, _k, itertools.count()))
      elif kind == "RLock":
        old = FE.__dict__[k]
        setattr(FE, k, R.LockProxy(d, name, old))
        self.undo.append(lambda _k=k, _o=old: setattr(FE, _k, _o))
    cells = {k: "FabricEvent.%s" % k for k, kind in info["class_state"].items() if kind == "attr"}
    if cells:
      self.undo.append(R.shared_class_attrs(d, ao, "FabricEvent", cells, info.get("class_state_initial")))
    self.fabric = fabric = ao.ActiveFabricSource()
    n = 2 * len(info["calls"])
    fabric.fifo_fabric_queue = R.make_queue(d, "fifo_queue", n)
    fabric.lifo_fabric_queue = R.make_queue(d, "lifo_queue", n)
    self.events = [ev.Event(signal="A") for _ in info["counts"]]
    self.errors = {}
    R.auto_proxy(self.d, sc, {"fabric": self.fabric})      # attributes the translator bound by itself
    self.bodies = {t: self.body(t, cnt) for t, cnt in enumerate(info["counts"])}

  def body(self, t, cnt):
    def run():
      try:
        for _ in range(cnt):
          self.fabric.publish(self.events[t], priority=5)
      except BaseException as ex:      # noqa: the failure is the observation
        self.errors[t] = "%s: %s" % (type(ex).__name__, ex)
    return run

  def observe(self):
    """sequence numbers per (kind, thread, k-th publish of that thread), read from the real FabricEvent objects in the real queues"""
    out = {}
    for kind, q in (("fifo", self.fabric.fifo_fabric_queue), ("lifo", self.fabric.lifo_fabric_queue)):
      per = {}
      for item in list(q.queue):
        t = [i for i, e in enumerate(self.events) if e is item.event][0]
        per.setdefault(t, []).append(item.sequence)
      for t, seqs in per.items():
        # a thread's own publishes are put in program order: the k-th item of a thread in a queue is its k-th publish
        for k, sq in enumerate(seqs):
          out["%s.%d.%d" % (kind, t, k)] = sq
    return {"sequence_numbers": out, "errors": {str(k): v for k, v in self.errors.items()}, "finished": sorted(self.d.finished)}

  def cleanup(self, threads):
    self.d.release_all()
    for t in threads.values():
      t.join(timeout=0.5)
    for u in self.undo:
      u()


def publishers_replay(sc, sysm, res, states, infos, loop):
  real = RealPublishers(sc, sysm)
  threads = {}
  try:
    ok, detail, threads = R.run_threads(real.d, real.bodies, triples(infos))
    time.sleep(0.02)
    obs = real.observe()
  finally:
    real.cleanup(threads)
  return {"matched": ok, "detail": detail, "real": obs}


def publishers_differential(kwargs, n, seed=0):
  from vf.e2.check import build
  rnd = random.Random(seed)
  bad = []
  ops = 0
  for k in range(n):
    sc, sysm = build("publishers", kwargs)
    st = sysm.initial()
    infos = []
    for _ in range(120):
      en = sysm.enabled_concrete(st)
      if not en:
        break
      st, info = sysm.step_concrete(st, rnd.choice(en))
      infos.append(info)
    real = RealPublishers(sc, sysm)
    threads = {}
    try:
      ok, detail, threads = R.run_threads(real.d, real.bodies, triples(infos))
      time.sleep(0.01)
      obs = real.observe()
    finally:
      real.cleanup(threads)
    ops += len(triples(infos))
    model = {key[len("g.seq."):]: v for key, v in st.items() if key.startswith("g.seq.")}
    if not ok:
      bad.append({"schedule": k, "why": detail})
    elif model != obs["sequence_numbers"] or obs["errors"]:
      bad.append({"schedule": k, "why": "model numbers %s, real %s" % (model, obs)})
  return {"schedules": n, "visible_operations": ops, "disagreements": bad}


# ---- subscribers scenario (C07: several objects subscribe to one signal at once) ------------------------------------------------------------
registry_proxies = R.registry_proxies


class RealSubscribers:
  def __init__(self, sc, sysm):
    import collections
    from vf import core
    core.fresh_miros()
    import miros.activeobject as ao
    import miros.event as ev
    vis, _, _ = R.visibility_from(sysm)
    self.d = d = R.Director(vis)
    self.info = info = sc.info
    _lp, registry = registry_proxies(d)
    n = info["n"]
    self.queues = [collections.deque(maxlen=4) for _ in range(n + 1)]
    self.fab = fab = ao.ActiveFabricSource()
    prior = [("A", [self.queues[n]])] if info["prior"] else []
    mine, other = ("fifo_subscriptions", "lifo_subscriptions") if info["kind"] == "fifo" else ("lifo_subscriptions", "fifo_subscriptions")
    setattr(fab, mine, registry(mine, prior))
    setattr(fab, other, registry(other))
    self.sub_ev = ev.Event(signal="A")
    self.errors = {}
    R.auto_proxy(self.d, sc, {"fabric": self.fab})
    self.bodies = {t: self.body(t) for t in range(n)}

  def body(self, t):
    def run():
      try:
        self.fab.subscribe(self.queues[0 if self.info["same"] else t], self.sub_ev, self.info["kind"])
      except BaseException as ex:      # noqa: the failure is the observation
        self.errors[t] = "%s: %s" % (type(ex).__name__, ex)
    return run

  def observe(self):
    reg = getattr(self.fab, "%s_subscriptions" % self.info["kind"])
    lst = list.__iter__(dict.get(reg, "A", []))
    names = []
    for q in lst:
      names.append([i for i, x in enumerate(self.queues) if x is q][0])
    return {"registered_queues": names, "errors": {str(k): v for k, v in self.errors.items()}, "finished": sorted(self.d.finished)}

  def cleanup(self, threads):
    self.d.release_all()
    for t in threads.values():
      t.join(timeout=0.5)


def subscribers_replay(sc, sysm, res, states, infos, loop):
  real = RealSubscribers(sc, sysm)
  threads = {}
  try:
    ok, detail, threads = R.run_threads(real.d, real.bodies, triples(infos))
    time.sleep(0.02)
    obs = real.observe()
  finally:
    real.cleanup(threads)
  return {"matched": ok, "detail": detail, "real": obs}


def subscribers_differential(kwargs, n, seed=0):
  from vf.e2.check import build
  rnd = random.Random(seed)
  bad = []
  ops = 0
  for k in range(n):
    sc, sysm = build("subscribers", kwargs)
    st = sysm.initial()
    infos = []
    for _ in range(120):
      en = sysm.enabled_concrete(st)
      if not en:
        break
      st, info = sysm.step_concrete(st, rnd.choice(en))
      infos.append(info)
    real = RealSubscribers(sc, sysm)
    threads = {}
    try:
      ok, detail, threads = R.run_threads(real.d, real.bodies, triples(infos))
      time.sleep(0.01)
      obs = real.observe()
    finally:
      real.cleanup(threads)
    ops += len(triples(infos))
    # the model's registered list for the signal
    dname = sc.info["dict"]
    li = st[dname + ".v0"] if st[dname + ".size"] else 0
    model = [st["registries.c%d_%d" % (li - 1, c)] for c in range(st["registries.len%d" % (li - 1)])] if li else []
    model = [sc.info["queue_numbers"].index(x) for x in model]
    if not ok:
      bad.append({"schedule": k, "why": detail})
    elif model != obs["registered_queues"] or obs["errors"]:
      bad.append({"schedule": k, "why": "model registry %s, real %s" % (model, obs)})
  return {"schedules": n, "visible_operations": ops, "disagreements": bad}
