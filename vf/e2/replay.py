"""Forced-schedule execution of the REAL miros functions with real threads (DESIGN 5.6).

The shared objects of a real instance are replaced by thin proxies (subclasses of queue.Queue, collections.deque,
threading.Event; a wrapper for RLock; properties for shared attributes).  Every *visible* operation (the same visibility rule
as the model: machine.System.invisible) first reports to a Director and waits for its turn; the Director grants turns in the order
of a schedule - the z3 model of a BMC query, or a generated schedule for differential validation.  If a thread shows up at a
different operation than the schedule says, model and code disagree: Mismatch (the check is then inconclusive, never a
violation)."""
import collections
import queue
import threading
import time


class Mismatch(Exception):
  pass


def _quiet_mismatch(args, _old=threading.excepthook):
  """a replay thread that is cut short by a Mismatch after its schedule ended is not an error to print"""
  if isinstance(args.exc_value, Mismatch):
    return
  _old(args)


threading.excepthook = _quiet_mismatch


class Director:
  def __init__(self, visible, timeout=20.0):
    """visible(tid, target, op) -> bool"""
    self.visible = visible
    self.cv = threading.Condition()
    self.tids = {}             # thread ident -> model tid
    self.waiting = {}          # tid -> (target, op)
    self.granted = None
    self.free = False
    self.finished = set()
    self.timeout = timeout
    self.log = []              # (tid, target, op) in execution order (visible operations only)
    self.full_log = []         # every intercepted operation with its result

  def register(self, tid, thread=None):
    self.tids[(thread or threading.current_thread()).ident] = tid

  def register_current(self, tid):
    self.tids[threading.get_ident()] = tid

  def me(self):
    return self.tids.get(threading.get_ident())

  def before(self, target, op):
    """called by a proxy before it performs `op`; returns when the operation may proceed"""
    tid = self.me()
    if tid is None or self.free:
      return tid
    if not self.visible(tid, target, op):
      return tid
    with self.cv:
      self.waiting[tid] = (target, op)
      self.cv.notify_all()
      while self.granted != tid and not self.free:
        self.cv.wait(0.05)
      if self.granted == tid:
        self.granted = None
        self.log.append((tid, target, op))
      self.waiting.pop(tid, None)
      self.cv.notify_all()
    return tid

  def done(self, tid):
    with self.cv:
      self.finished.add(tid)
      self.cv.notify_all()

  def wait_arrival(self, tid):
    """wait until thread tid stands at a visible operation or has finished"""
    end = time.time() + self.timeout
    with self.cv:
      while tid not in self.waiting and tid not in self.finished:
        left = end - time.time()
        if left <= 0:
          return None
        self.cv.wait(min(left, 0.05))
      if tid in self.waiting:
        return self.waiting[tid]
      return "finished"

  def grant(self, tid, expect=None):
    """let thread tid perform the visible operation it is waiting at, then wait until it arrives at its next one"""
    at = self.wait_arrival(tid)
    if at is None:
      raise Mismatch("thread %s did not arrive at a visible operation (expected %s)" % (tid, expect))
    if at == "finished":
      raise Mismatch("thread %s has finished but the schedule expects %s" % (tid, expect))
    if expect is not None and tuple(at) != tuple(expect):
      raise Mismatch("thread %s stands at %s.%s, the schedule expects %s.%s" % (tid, at[0], at[1], expect[0], expect[1]))
    with self.cv:
      self.waiting.pop(tid, None)
      self.granted = tid
      self.cv.notify_all()
      end = time.time() + self.timeout
      while self.granted == tid:
        left = end - time.time()
        if left <= 0:
          raise Mismatch("thread %s did not take its turn" % tid)
        self.cv.wait(min(left, 0.05))
    nxt = self.wait_arrival(tid)
    if nxt is None:
      raise Mismatch("after %s.%s thread %s neither reached a visible operation nor finished (blocked in a real call?)" % (at[0], at[1], tid))
    return at

  def release_all(self):
    with self.cv:
      self.free = True
      self.cv.notify_all()


# ---- proxies ------------------------------------------------------------------------------------------
def make_queue(director, name, maxsize, real_cls=queue.Queue):
  class QProxy(real_cls):
    def put(self, item, block=True, timeout=None):
      director.before(name, "put" if block else "put_nowait")
      if director.free:
        return real_cls.put(self, item, block, timeout)
      try:
        return real_cls.put(self, item, False)
      except queue.Full:
        if block:
          raise Mismatch("queue %s: the schedule grants a put that would block" % name)
        raise

    def put_nowait(self, item):
      director.before(name, "put_nowait")
      return real_cls.put(self, item, False)

    def get(self, block=True, timeout=None):
      director.before(name, "get" if block else "get_nowait")
      if director.free:
        return real_cls.get(self, block, timeout)
      try:
        return real_cls.get(self, False)
      except queue.Empty:
        if block:
          raise Mismatch("queue %s: the schedule grants a get that would block" % name)
        raise

    def get_nowait(self):
      director.before(name, "get_nowait")
      return real_cls.get(self, False)

    def full(self):
      director.before(name, "full")
      return real_cls.full(self)

    def empty(self):
      director.before(name, "empty")
      return real_cls.empty(self)

    def qsize(self):
      director.before(name, "qsize")
      return real_cls.qsize(self)

    def task_done(self):
      director.before(name, "task_done")
      return real_cls.task_done(self)
  return QProxy(maxsize=maxsize)


def make_deque(director, name, maxlen, items=()):
  base = collections.deque

  class DProxy(base):
    def append(self, x):
      director.before(name, "append")
      return base.append(self, x)

    def appendleft(self, x):
      director.before(name, "appendleft")
      return base.appendleft(self, x)

    def pop(self):
      director.before(name, "pop")
      return base.pop(self)

    def popleft(self):
      director.before(name, "popleft")
      return base.popleft(self)

    def rotate(self, n=1):
      director.before(name, "rotate")
      return base.rotate(self, n)

    def clear(self):
      director.before(name, "clear")
      return base.clear(self)

    def __len__(self):
      director.before(name, "__len__")
      return base.__len__(self)

    def __getitem__(self, i):
      director.before(name, "getitem")
      if isinstance(i, int) and i < 0:
        i += base.__len__(self)        # the C slot would call back into our __len__ for a negative index
        if i < 0:
          raise IndexError("deque index out of range")
      return base.__getitem__(self, i)

    def __iter__(self):
      director.before(name, "snapshot")
      return iter(list(base.__iter__(self)))
  return DProxy(items, maxlen)


def make_event(director, name, flag=False):
  class EProxy(threading.Event):
    def is_set(self):
      director.before(name, "is_set")
      return threading.Event.is_set(self)

    def set(self):
      director.before(name, "set")
      return threading.Event.set(self)

    def clear(self):
      director.before(name, "clear")
      return threading.Event.clear(self)

    def wait(self, timeout=None):
      director.before(name, "wait")
      if director.free:
        return threading.Event.wait(self, timeout)
      if not threading.Event.is_set(self):
        raise Mismatch("event %s: the schedule grants a wait that would block" % name)
      return True
  e = EProxy()
  if flag:
    threading.Event.set(e)
  return e


class LockProxy:
  def __init__(self, director, name, real=None):
    self.d, self.name = director, name
    # of the kind of lock the code made itself (an RLock or a plain Lock: they differ for the holder's second acquire)
    # (a fresh one of the same kind, so that nothing is left over from an earlier replay)
    self.real = threading.Lock() if isinstance(real, type(threading.Lock())) else threading.RLock()

  def acquire(self, blocking=True, timeout=-1):
    self.d.before(self.name, "acquire")
    if self.d.free:
      return self.real.acquire(blocking, timeout)
    ok = self.real.acquire(False)
    if not ok:
      raise Mismatch("lock %s: the schedule grants an acquire that would block" % self.name)
    return ok

  def release(self):
    self.d.before(self.name, "release")
    return self.real.release()

  __enter__ = acquire

  def __exit__(self, *a):
    self.release()


def shared_attr(director, obj, attr, name):
  """turn obj.<attr> into a property whose loads and stores are visible operations `name`.load / `name`.store"""
  cls = obj.__class__
  store = "_vf_real_" + attr
  obj.__dict__[store] = obj.__dict__.pop(attr) if attr in obj.__dict__ else getattr(obj, attr)

  def getter(self):
    director.before(name, "load")
    return self.__dict__[store]

  def setter(self, v):
    director.before(name, "store")
    self.__dict__[store] = v
  sub = type("Shared_" + cls.__name__, (cls,), {attr: property(getter, setter)})
  obj.__class__ = sub
  return obj


def registry_proxies(d):
  """(ListProxy, registry factory) for the fabric's subscription registries: a dict of lists whose operations are visible steps"""
  if getattr(d, "_registry_proxies", None) is not None:
    return d._registry_proxies      # one pair of classes per director: lists are recognised across registries
  class ListProxy(list):
    def append(self, x):
      d.before("registries", "append")
      return list.append(self, x)

    def __add__(self, other):
      d.before("registries", "concat_new")
      return ListProxy(list.__add__(self, other))

    def __setitem__(self, k, v):
      if isinstance(k, slice):
        if isinstance(v, ListProxy) or (isinstance(v, (tuple, list)) and not v):
          d.before("registries", "assign_from")     # from another modelled list (or an empty sequence): one C-level copy
          v = list(list.__iter__(v)) if isinstance(v, list) else []
        else:
          v = list(v)                      # the right-hand side is evaluated before the one C-level replacement
          d.before("registries", "replace")
      return list.__setitem__(self, k, v)

    def __iter__(self):
      i = 0
      while True:
        d.before("registries", "iter_next")
        if i >= list.__len__(self):
          return
        yield list.__getitem__(self, i)
        i += 1

  def registry(name, items=()):
    class KeysView:
      def __init__(self, dd):
        self.dd = dd

      def __contains__(self, k):
        d.before(name, "contains")
        return dict.__contains__(self.dd, k)

    class Reg(dict):
      def __contains__(self, k):
        d.before(name, "contains")
        return dict.__contains__(self, k)

      def __getitem__(self, k):
        d.before(name, "getitem")
        return dict.__getitem__(self, k)

      def __setitem__(self, k, v):
        if isinstance(v, list) and not isinstance(v, ListProxy):
          d.before("registries", "new")          # the list literal the code has just built
          v = ListProxy(v)
        d.before(name, "setitem")
        return dict.__setitem__(self, k, v)

      def get(self, k, default=None):
        d.before(name, "get_default")
        return dict.get(self, k, default)

      def keys(self):
        return KeysView(self)
    r = Reg()
    for k, v in items:
      dict.__setitem__(r, k, ListProxy(v))
    return r
  d._registry_proxies = (ListProxy, registry)
  return ListProxy, registry


def make_pq(d, name):
  """a queue.PriorityQueue whose operations are visible steps `name`.<op> (the fabric's two queues)"""
  class PQ(queue.PriorityQueue):
    def put(self, item, block=True, timeout=None):
      d.before(name, "put" if block else "put_nowait")
      return queue.PriorityQueue.put(self, item, block, timeout)

    def put_nowait(self, item):
      d.before(name, "put_nowait")
      return queue.PriorityQueue.put(self, item, False)

    def get(self, block=True, timeout=None):
      d.before(name, "get" if block else "get_nowait")
      if d.free or not block:
        return queue.PriorityQueue.get(self, block, timeout)
      try:
        return queue.PriorityQueue.get(self, False)
      except queue.Empty:
        raise Mismatch("queue %s: the schedule grants a get that would block" % name)

    def get_nowait(self):
      d.before(name, "get_nowait")
      return queue.PriorityQueue.get(self, False)

    def task_done(self):
      d.before(name, "task_done")
      return queue.PriorityQueue.task_done(self)

    def empty(self):
      d.before(name, "empty")
      return queue.PriorityQueue.empty(self)

    def full(self):
      d.before(name, "full")
      return queue.PriorityQueue.full(self)

    def qsize(self):
      d.before(name, "qsize")
      return queue.PriorityQueue.qsize(self)
  return PQ()


def auto_proxy(director, sc, real_objects):
  """the attributes the translator bound by itself (sc.auto_bound) get the matching proxies on the real objects {object name: object}"""
  for (oname, attr, mname, kind) in getattr(sc, "auto_bound", []):
    obj = real_objects.get(oname)
    if obj is None or not hasattr(obj, attr):
      continue
    if kind == "RLock":
      setattr(obj, attr, LockProxy(director, mname, getattr(obj, attr)))
    elif kind == "Event":
      setattr(obj, attr, make_event(director, mname, getattr(obj, attr).is_set()))
    elif kind == "attr":
      shared_attr(director, obj, attr, mname)
    elif kind == "list":
      setattr(obj, attr, registry_proxies(director)[0](getattr(obj, attr)))
    elif kind == "dict":
      setattr(obj, attr, make_dict(director, mname))


def shared_class_attrs(director, module, clsname, names, initial=None):
  """make loads and stores of the class attributes `names` ({attribute: operation target}) of module.<clsname> visible operations: the
  module's name is rebound to a subclass whose metaclass has a property per attribute (type objects cannot change their metaclass; code
  that says `ClassName.attr` resolves the module global, i.e. the subclass).  Returns an undo function."""
  cls = getattr(module, clsname)
  cells = {a: (initial or {}).get(a, cls.__dict__[a]) for a in names}
  props = {}
  for a, target in names.items():
    def getter(c, _a=a, _t=target):
      director.before(_t, "load")
      return cells[_a]

    def setter(c, v, _a=a, _t=target):
      director.before(_t, "store")
      cells[_a] = v
    props[a] = property(getter, setter)
  meta = type("SharedMeta_" + clsname, (type(cls),), props)
  sub = meta(clsname, (cls,), {"__module__": cls.__module__, "__qualname__": cls.__qualname__})
  setattr(module, clsname, sub)

  def undo():
    setattr(module, clsname, cls)
  return undo


class CounterProxy:
  """stands in for an itertools.count(): next() is the visible operation `name`.take"""

  def __init__(self, director, name, first=0):
    import itertools
    self.d, self.name = director, name
    self.real = itertools.count(first)

  def __iter__(self):
    return self

  def __next__(self):
    self.d.before(self.name, "take")
    return next(self.real)


def visibility_from(system, name_map=None):
  """visibility rule of a machine.System as a function (tid, target name, op) -> bool"""
  from vf.e2 import ir
  invisible = set()
  visible_ops = set()
  for p in system.programs:
    for n in p.nodes:
      if isinstance(n, ir.Op):
        tn = n.target.name if not isinstance(n.target, tuple) else None
        names = [tn] if tn else [m.name for m in system.sc.objs_of(n.target[0])]
        for nm in names:
          if (p.tid, n.id) in system.invisible:
            invisible.add((p.tid, nm, n.name))
          else:
            visible_ops.add((p.tid, nm, n.name))

  def vis(tid, target, op):
    if (tid, target, op) in visible_ops:
      return True
    return False
  return vis, visible_ops, invisible


def run_threads(director, bodies, schedule, loop=None, loop_times=0):
  """bodies: {tid: callable}; schedule: [(tid, target, op)]; loop = (start, end) indices of the schedule to repeat loop_times more.
  Returns (ok, detail)."""
  threads = {}

  def wrap(tid, fn):
    def run():
      director.register_current(tid)
      try:
        fn()
      finally:
        director.done(tid)
    return run
  for tid, fn in bodies.items():
    t = threading.Thread(target=wrap(tid, fn), daemon=True, name="vf-replay-%s" % tid)
    threads[tid] = t
  for t in threads.values():
    t.start()
  steps = list(schedule)
  if loop:
    steps = steps + steps[loop[0]:loop[1]] * loop_times
  try:
    for (tid, target, op) in steps:
      director.grant(tid, (target, op))
  except Mismatch as ex:
    director.release_all()
    return False, str(ex), threads
  return True, "", threads


def replay_file(r):
  """./check <id> --replay <file> for an E2 counterexample: re-run the recorded query (same scenario, bound and predicate) against the
  current tree and replay whatever the solver finds on the real code"""
  import json
  from vf.e2 import check
  spec = r["spec"]
  res = check.run_query(spec)
  print(json.dumps({k: res.get(k) for k in ("kind", "K", "result", "seconds", "concrete_confirms", "trace", "inputs", "replay")}, indent=1)[:6000])
  if res.get("result") == "unsat":
    return 0
  if res.get("result") == "sat" and isinstance(res.get("replay"), dict) and res["replay"].get("matched"):
    return 1
  return 2


def make_dict(director, name):
  class PDict(dict):
    def get(self, k, default=None):
      director.before(name, "get_default")
      return dict.get(self, k, default)

    def __getitem__(self, k):
      director.before(name, "getitem")
      return dict.__getitem__(self, k)

    def __setitem__(self, k, v):
      director.before(name, "setitem")
      return dict.__setitem__(self, k, v)

    def __contains__(self, k):
      director.before(name, "contains")
      return dict.__contains__(self, k)
  return PDict()
