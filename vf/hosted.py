"""Run a generated chart on one of the hosts: start_at, then one step; collect everything observable.
Shared by C18, C19, C20, C22, C23."""
from vf import charts, hosts


class Obs:
  pass


def snapshot(c, ch, host):
  o = Obs()
  o.log = list(ch.log)
  o.calls = list(ch.calls)
  o.state_fun = c.state.fun
  o.temp_fun = c.temp.fun
  o.state_name = getattr(c, "state_name", None)
  o.state_fn = getattr(c, "state_fn", None)
  o.instrumented = getattr(c, "instrumented", None)
  o.spy_rtc = list(c.rtc.spy) if hasattr(c, "rtc") else None
  o.spy_full = list(c.full.spy) if hasattr(c, "full") else None
  o.trace = list(c.full.trace) if hasattr(c, "full") else None
  o.current_state = None
  if host >= 2 and o.instrumented:
    n_log, n_calls = len(ch.log), len(ch.calls)
    o.current_state = c.current_state()
    del ch.log[n_log:]
    del ch.calls[n_calls:]
  return o


def build(l, a, b, k, tsel, j1, pm, deco, hx=0, rk=0):
  """rk: reaction of the answering state S - 0 transition to T, 1 handled internally, 2 nobody answers"""
  parent, react, init, cur, S, T = charts.y_family(l, a, b, k, tsel, j1, 0, 0, pm)
  if rk == 1:
    react[S] = charts.R_HANDLE
  elif rk == 2:
    react[S] = charts.R_DECLINE if pm else charts.R_PASS
  return parent, react, init, cur, S, T


def run(l, a, b, k, tsel, j1, pm, host, deco, ls=0, lt=0, hx=0, rk=0, rings=None):
  """returns (chart tables object, host object, obs after start, obs after step)"""
  parent, react, init, cur, S, T = build(l, a, b, k, tsel, j1, pm, deco, hx, rk)
  import miros.hsm as _hsm
  _hsm.HsmEventProcessor.SPY_RING_BUFFER_SIZE = (rings or {}).get("spy", 500)
  _hsm.HsmEventProcessor.TRC_RING_BUFFER_SIZE = (rings or {}).get("trc", 500)
  _hsm.HsmEventProcessor.RTC_RING_BUFFER_SIZE = (rings or {}).get("rtc", 250)
  c, spy_lines, trace_lines = hosts.make(host, ls, lt)
  ch = charts.Chart(parent, react, init, decorate=bool(deco), hx=hx, fresh=False)
  ch.cur = cur
  c.start_at(ch.hs[cur])
  hosts.pump_writer(c)
  o1 = snapshot(c, ch, host)
  o1.spy_lines, o1.trace_lines = list(spy_lines), list(trace_lines)
  del ch.log[:]
  del ch.calls[:]
  del spy_lines[:]
  del trace_lines[:]
  hosts.step(c, host, ch.Event(signal=ch.SIG))
  hosts.pump_writer(c)
  o2 = snapshot(c, ch, host)
  o2.spy_lines, o2.trace_lines = list(spy_lines), list(trace_lines)
  return ch, c, o1, o2
