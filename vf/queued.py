"""Shared harness for queued charts (C14, C15): one or two operations from an arbitrary valid
pre-state of the pending and deferred queues, on HsmWithQueues or an un-started ActiveObject.

The chart is a single state whose handler logs every user event it is given and, on the first
dispatch of the case, performs a small *script* of handler-side actions (posts, defer, recall).
"""
import queue as _queue
from collections import deque

OPS = ["post_fifo", "post_lifo", "next_rtc", "complete_circuit", "defer", "recall"]
ACTS = ["post_fifo", "post_lifo", "defer-current", "recall"]


def scripts():
  out = [()]
  for a in range(4):
    out.append((a,))
  for a in range(4):
    for b in range(4):
      out.append((a, b))
  return out


SCRIPTS = scripts()


class WouldBlock(Exception):
  pass


class NBQueue(_queue.Queue):
  """queue.Queue that never blocks: where the real one would block, it records the fact and raises"""
  blocked = []

  def put(self, item, block=True, timeout=None):
    try:
      return super().put(item, block=False)
    except _queue.Full:
      if block:
        NBQueue.blocked.append("put")
        raise WouldBlock("put on a full queue would block")
      raise

  def get(self, block=True, timeout=None):
    try:
      return super().get(block=False)
    except _queue.Empty:
      if block:
        NBQueue.blocked.append("get")
        raise WouldBlock("get on an empty queue would block")
      raise


def make_host(host, instr, capacity):
  """host 0: HsmWithQueues, 1: un-started ActiveObject.  Fresh singletons, small capacity."""
  from vf import core
  core.fresh_miros()
  import miros.hsm as hsm
  import miros.activeobject as ao
  hsm.HsmWithQueues.QUEUE_SIZE = capacity
  ao.ActiveObject.QUEUE_SIZE = capacity
  ao.Queue = NBQueue
  NBQueue.blocked = []
  if host == 0:
    c = hsm.HsmWithQueues(instrumented=bool(instr))
  else:
    c = ao.ActiveObject(name="ao", instrumented=bool(instr))
  return c


class QCase:
  def __init__(self, host, deco, instr, capacity=8):
    import miros.event as ev
    import miros.hsm as hsm
    self.chart = make_host(host, instr, capacity)
    self.Event = ev.Event
    self.signals = ev.signals
    self.rs = ev.return_status
    self.log = []          # tokens dispatched, in order
    self.script = ()
    self.script_done = False
    self.scrib = False
    self.igmode = 0        # 0: every event is handled; 1: odd-numbered tokens are ignored by the chart; 2: even-numbered
    self.fresh = 0
    self.recalled = []     # (returned token or None) for handler-side recalls
    self.made = {}
    qc = self

    def only(chart, e):
      s = e.signal
      sg = qc.signals
      if s in (sg.ENTRY_SIGNAL, sg.INIT_SIGNAL, sg.EXIT_SIGNAL):
        return qc.rs.HANDLED
      if e.signal_name.startswith("T_"):
        qc.log.append(e.signal_name)
        if qc.is_ignored(e.signal_name):
          # an event no state answers: it is offered (and logged) and then falls through to top
          chart.temp.fun = chart.top
          return qc.rs.SUPER
        if not qc.script_done:
          qc.script_done = True
          if qc.scrib:
            chart.scribble("note")
          for a in qc.script:
            if a == 0:
              chart.post_fifo(qc.new_event("H"))
            elif a == 1:
              chart.post_lifo(qc.new_event("H"))
            elif a == 2:
              chart.defer(e)
            else:
              r = chart.recall()
              qc.recalled.append(None if r is None else r.signal_name)
        return qc.rs.HANDLED
      chart.temp.fun = chart.top
      return qc.rs.SUPER
    only.__name__ = "only"
    self.state = hsm.spy_on(only) if deco else only
    hsm.HsmWithQueues.start_at(self.chart, self.state)

  def is_ignored(self, name):
    if not self.igmode:
      return False
    n = int("".join(ch for ch in name if ch.isdigit()))
    return (n % 2 == 1) if self.igmode == 1 else (n % 2 == 0)

  def new_event(self, prefix):
    name = "T_%s%d" % (prefix, self.fresh)
    self.fresh += 1
    e = self.Event(signal=name)
    self.made[name] = e
    return e

  def pending(self):
    q = self.chart.queue
    d = q.deque if hasattr(q, "deque") else q
    return [e.signal_name for e in d]

  def deferred(self):
    return [e.signal_name for e in self.chart.defer_queue]


class Model:
  """reference: two double-ended queues driven by the same operations"""

  def __init__(self):
    self.pending = deque()
    self.deferred = deque()
    self.log = []
    self.script = ()
    self.script_done = False
    self.igmode = 0
    self.fresh = 0
    self.recalled = []

  def new(self, prefix):
    name = "T_%s%d" % (prefix, self.fresh)
    self.fresh += 1
    return name

  def step(self):
    if not self.pending:
      return False
    e = self.pending.popleft()
    self.log.append(e)
    if self.igmode:
      n = int("".join(ch for ch in e if ch.isdigit()))
      if (n % 2 == 1) if self.igmode == 1 else (n % 2 == 0):
        return True          # offered, answered by no state: nothing else happens
    if not self.script_done:
      self.script_done = True
      for a in self.script:
        if a == 0:
          self.pending.append(self.new("H"))
        elif a == 1:
          self.pending.appendleft(self.new("H"))
        elif a == 2:
          self.deferred.append(e)
        else:
          self.recalled.append(self.recall())
    return True

  def recall(self):
    if not self.deferred:
      return None
    x = self.deferred.popleft()
    self.pending.append(x)
    return x


def run_pair(host, deco, instr, np_, nd, op1, op2, script, igmode=0):
  """build the pre-state through the real API, apply op1 then op2 (op2 == -1: none) on the real chart and
  on the model; return (QCase, Model, results_real, results_model)"""
  qc = QCase(host, deco, instr)
  qc.igmode = igmode
  m = Model()
  m.igmode = igmode
  c = qc.chart
  for _ in range(np_):
    c.post_fifo(qc.new_event("P"))
    m.pending.append(m.new("P"))
  for _ in range(nd):
    c.defer(qc.new_event("D"))
    m.deferred.append(m.new("D"))
  qc.script = m.script = SCRIPTS[script]
  rr, rm = [], []
  for op in (op1, op2):
    if op < 0:
      continue
    name = OPS[op]
    if name == "post_fifo":
      c.post_fifo(qc.new_event("X")); m.pending.append(m.new("X")); rr.append(None); rm.append(None)
    elif name == "post_lifo":
      c.post_lifo(qc.new_event("X")); m.pending.appendleft(m.new("X")); rr.append(None); rm.append(None)
    elif name == "defer":
      c.defer(qc.new_event("X")); m.deferred.append(m.new("X")); rr.append(None); rm.append(None)
    elif name == "recall":
      r = c.recall()
      rr.append(None if r is None else r.signal_name)
      rm.append(m.recall())
    elif name == "next_rtc":
      before = len(qc.log)
      c.next_rtc()
      rr.append(("dispatched", len(qc.log) - before))
      mb = len(m.log)
      m.step()
      rm.append(("dispatched", len(m.log) - mb))
    else:
      c.complete_circuit()
      rr.append(("empty", len(qc.pending()) == 0))
      while m.step():
        pass
      rm.append(("empty", True))
  return qc, m, rr, rm
