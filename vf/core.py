"""Shared machinery of the E1 engine (CrossHair symbolic execution of the real functions).

A *harness* is a module-level function of a property module (vf/props/cNN.py) whose
parameters are small symbolic ints/bools/strs, with a PEP-316 docstring.  It
concretises its int parameters with a comparison ladder (each comparison is a fork
the solver decides and CrossHair's path tree can exhaust), runs the real miros code on
that case and compares with the oracle through `verdict()`.

The worker (vf/worker.py) runs CrossHair on one harness under one partition; this
module keeps the per-worker bookkeeping: number of harness invocations, how many were
non-trivial, sample cases, oracle failures (with their concrete arguments and their
signature), and hits of known findings.
"""
import json
import os
import sys

VERIF = os.path.dirname(os.path.dirname(os.path.abspath(__file__)))
REPO = os.environ.get("VERIF_REPO", "/repo")


class Unreachable(Exception):
  pass


class HarnessAbort(BaseException):
  """raised by harness-installed guards (call limits); BaseException so that the code
  under test cannot swallow it with `except Exception` / bare except is still possible
  and handled where it matters."""


def ladder(x, lo, hi):
  """concretise a symbolic int known to lie in lo..hi by comparisons"""
  for v in range(lo, hi + 1):
    if x == v:
      return v
  raise Unreachable("ladder: value outside %d..%d" % (lo, hi))


def bladder(x):
  """concretise a symbolic bool"""
  if x:
    return True
  return False


class Outcome:
  """result of one concrete case: ok, or a failure with a signature"""
  __slots__ = ("ok", "sig", "detail", "nontrivial", "tags")

  def __init__(self, ok, sig=None, detail="", nontrivial=True, tags=()):
    self.ok = ok
    self.sig = sig
    self.detail = detail
    self.nontrivial = nontrivial
    self.tags = tuple(tags)


def PASS(nontrivial=True, tags=()):
  return Outcome(True, nontrivial=nontrivial, tags=tags)


def FAIL(sig, detail="", tags=()):
  return Outcome(False, sig=sig, detail=str(detail)[:600], tags=tags)


class Recorder:
  def __init__(self):
    self.reset()

  def reset(self):
    self.paths = 0
    self.nontrivial = set()
    self.samples = []
    self.failures = []     # oracle failures with an unlisted signature
    self.known = {}        # signature -> {"count": n, "case": [...]} for listed signatures
    self.tags = {}
    self.twin = False
    self.twin_case = None
    self.known_sigs = set()
    self.harness = None

  def dump(self):
    return {
      "paths": self.paths,
      "nontrivial": len(self.nontrivial),
      "samples": self.samples,
      "failures": self.failures,
      "known": self.known,
      "tags": self.tags,
      "twin_case": self.twin_case,
    }


REC = Recorder()


def _jsonable(x):
  try:
    json.dumps(x)
    return x
  except TypeError:
    return repr(x)


def concrete(fn, *args):
  """run fn(*args) with CrossHair's tracing switched off: every argument has been concretised by a
  ladder, so from here on the path is concrete and the real code runs natively (uninstrumented)."""
  if os.environ.get("VERIF_TRACE_CONCRETE"):
    return fn(*args)
  try:
    from crosshair.tracers import NoTracing, is_tracing
  except ImportError:
    return fn(*args)
  if not is_tracing():
    return fn(*args)
  with NoTracing():
    return fn(*args)


def verdict(case, outcome):
  """called by a harness at its end (case = tuple of concrete args); bookkeeping runs untraced"""
  return concrete(_verdict, case, outcome)


def _verdict(case, outcome):
  case = [_jsonable(c) for c in case]
  REC.paths += 1
  if REC.twin:
    # reachability twin: the assertion is replaced by False on the first case reached
    if REC.twin_case is None:
      REC.twin_case = case
    return False
  for t in outcome.tags:
    REC.tags[t] = REC.tags.get(t, 0) + 1
  if outcome.ok:
    if outcome.nontrivial:
      REC.nontrivial.add(json.dumps(case))
    if len(REC.samples) < 3:
      REC.samples.append(case)
    return True
  if outcome.sig in REC.known_sigs:
    k = REC.known.setdefault(outcome.sig, {"count": 0, "case": case, "detail": outcome.detail})
    k["count"] += 1
    REC.nontrivial.add(json.dumps(case))
    return True
  if os.environ.get("VERIF_COLLECT_ALL"):
    # development aid: keep exploring, report one case per distinct signature at the end
    if not any(f["sig"] == outcome.sig for f in REC.failures):
      REC.failures.append({"case": case, "sig": outcome.sig, "detail": outcome.detail})
    return True
  if len(REC.failures) < 20:
    REC.failures.append({"case": case, "sig": outcome.sig, "detail": outcome.detail})
  return False


def _count_ok():
  REC.paths += 1
  REC.nontrivial.add("path-%d" % REC.paths)
  return True


def verdict_symbolic(args, ok, sig, detail=""):
  """for harnesses whose arguments stay symbolic through the real code (no ladder): `ok` may be a symbolic
  bool.  On the failing branch the arguments are realised (the solver's model) and recorded."""
  if REC.twin:
    from crosshair.core import deep_realize
    case = deep_realize(list(args))
    return concrete(_verdict, tuple(case), PASS())
  if ok:
    return concrete(_count_ok)
  from crosshair.core import deep_realize
  case = deep_realize(list(args))
  return concrete(_verdict, tuple(case), FAIL(sig, detail))


def load_known(prop_id):
  """signatures listed as known (unrepaired) findings for this property"""
  path = os.path.join(VERIF, "known_findings.json")
  out = {}
  if os.path.exists(path):
    with open(path) as f:
      data = json.load(f)
    for e in data.get("findings", []):
      if e.get("property") == prop_id and e.get("status") == "known":
        out[e["signature"]] = e.get("what", "")
  return out


def fresh_miros():
  """replace the process-wide singletons by fresh instances (signal registry, fabric, writer)
  so that paths/cases cannot contaminate each other.  Returns the fresh signal registry."""
  import miros.event as ev
  import miros.hsm as hsm
  import miros.activeobject as ao
  sig = ev.SignalSource()
  ev.Signal.instance = sig
  ev.signals = sig
  hsm.signals = sig
  ao.signals = sig
  # fabric run event, fabric, writer
  ao.FiberThreadEvent.instance = None
  ao.ActiveFabric.instance = None
  ao.InstrumentionWriter.instance = None
  return sig
