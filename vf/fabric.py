"""Helpers to run the active fabric and active objects without threads (DESIGN: 'Running the fabric and
timer thread bodies without threads').  Thread objects are SimThreads; a body is *pumped* by calling the
real target with a counting event in place of its run flag, so it processes exactly m items."""
import queue as _queue

from vf import hosts
from vf.queued import NBQueue, WouldBlock


class NBPriorityQueue(_queue.PriorityQueue):
  """the real PriorityQueue (real heap, real comparisons) that raises where it would block"""

  def get(self, block=True, timeout=None):
    try:
      return super().get(block=False)
    except _queue.Empty:
      if block:
        raise WouldBlock("get on an empty priority queue would block")
      raise


class CountingEvent:
  """stands for a thread's run flag: true exactly n times"""

  def __init__(self, n):
    self.n = n

  def is_set(self):
    self.n -= 1
    return self.n >= 0

  def set(self):
    pass

  def clear(self):
    self.n = 0


class AlreadyInside:
  """run flag of a thread that is blocked inside its loop body: the first test was already passed"""

  def __init__(self, real):
    self.real = real
    self.first = True

  def is_set(self):
    if self.first:
      self.first = False
      return True
    return self.real.is_set()

  def set(self):
    self.real.set()

  def clear(self):
    self.real.clear()


class FabricThread(hosts.SimThread):
  """SimThread whose join models a service thread that is blocked in queue.get(): joining it runs the
  real body from inside the loop; if the body would block again the join would never return."""
  join_blocked = []
  at_loop_test = False

  def join(self, timeout=None):
    if not self.started:
      raise RuntimeError("cannot join thread before it is started")
    if self.ended:
      return
    name = getattr(self.target, "__name__", "")
    try:
      if name in ("thread_runner_fifo", "thread_runner_lifo") and FabricThread.at_loop_test:
        # the delivery thread has just finished an iteration and is about to test its run flag (it is not waiting in get())
        self.target(*self.args)
      elif name in ("thread_runner_fifo", "thread_runner_lifo", "run_event"):
        self.target(AlreadyInside(self.args[0]), *self.args[1:])
      else:
        self.target(*self.args, **self.kwargs)
      self.ended = True
    except WouldBlock:
      FabricThread.join_blocked.append(name)
      raise


def install(capacity=None):
  hsm, ao = hosts.install_stubs(capacity)
  ao.Thread = FabricThread
  ao.PriorityQueue = NBPriorityQueue
  FabricThread.join_blocked = []
  FabricThread.at_loop_test = False
  return hsm, ao


def pump_thread(t, m):
  """let the (alive) service thread t process up to m items with its own queue and registry arguments"""
  if not t.is_alive():
    return 0
  ev = CountingEvent(m)
  try:
    t.target(ev, *t.args[1:])
    if ev.n >= 0:
      t.ended = True          # the body left its loop although its run flag was still up: the thread is gone
  except WouldBlock:
    pass
  return m - max(ev.n, 0) if ev.n >= 0 else m


def fabric_threads(kind=None, alive_only=True):
  out = []
  for t in hosts.SimThread.registry:
    n = getattr(t.target, "__name__", "")
    if n in ("thread_runner_fifo", "thread_runner_lifo"):
      if kind and not n.endswith(kind):
        continue
      if alive_only and not t.is_alive():
        continue
      out.append(t)
  return out


def pump_fabric(m=100):
  """every alive delivery thread processes up to m items (fifo first, then lifo)"""
  for t in fabric_threads("fifo") + fabric_threads("lifo"):
    pump_thread(t, m)


def pump_direct(af, kind, m):
  """pump a delivery body of a fabric that was never started (used where only delivery order matters)"""
  ev = CountingEvent(m)
  try:
    if kind == "fifo":
      af.thread_runner_fifo(ev, af.fifo_fabric_queue, af.fifo_subscriptions)
    else:
      af.thread_runner_lifo(ev, af.lifo_fabric_queue, af.lifo_subscriptions)
  except WouldBlock:
    pass


# ---- timed sources ---------------------------------------------------------------------------
class CutInfiniteSource(BaseException):
  """raised by the stub clock to cut a times=0 source after M sleeps"""


class VirtualTime:
  """stands for the `time` module inside miros.activeobject: sleep advances a virtual clock"""

  def __init__(self, max_sleeps=None):
    self.now = 0
    self.sleeps = []
    self.max_sleeps = max_sleeps

  def sleep(self, p):
    if self.max_sleeps is not None and len(self.sleeps) >= self.max_sleeps:
      raise CutInfiniteSource()
    self.now += p
    self.sleeps.append(self.now)

  def time(self):
    return self.now


def timer_threads(alive_only=False):
  out = []
  for t in hosts.SimThread.registry:
    if getattr(t.target, "__name__", "") == "post_event_thread_runner":
      if alive_only and not t.is_alive():
        continue
      out.append(t)
  return out


def make_active_object(ao, hsm, name="ao", deco=True, handled_prefix="W", log=None):
  """a started one-state active object (threads are stand-ins); returns (object, dispatch log)"""
  from miros.event import signals, return_status
  log = [] if log is None else log

  def only(chart, e):
    if e.signal in (signals.ENTRY_SIGNAL, signals.INIT_SIGNAL, signals.EXIT_SIGNAL):
      return return_status.HANDLED
    if e.signal_name.startswith(handled_prefix):
      log.append(e.signal_name)
      return return_status.HANDLED
    chart.temp.fun = chart.top
    return return_status.SUPER
  st = hsm.spy_on(only) if deco else only
  a = ao.ActiveObject(name=name)
  a.start_at(st)
  return a, log
