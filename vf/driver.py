"""Driver: runs every job of a property module, collects solver verdicts, replays
counterexamples on the real code, matches known findings, writes evidence.

exit 0: every condition of every partition CONFIRMED (and every BMC query decided as expected)
exit 1: a counterexample that replays on /repo and is not a listed known finding
exit 2: inconclusive (timeout, unknown, count mismatch, harness error, non-replaying counterexample)
"""
import argparse
import importlib
import json
import os
import subprocess
import sys
import tempfile
import time
from concurrent.futures import ThreadPoolExecutor

from vf import core

VERIF = core.VERIF
PY = sys.executable
EVDIR = os.environ.get("VERIF_EVIDENCE_DIR") or os.path.join(VERIF, "evidence")


def run_worker(job):
  fd, out = tempfile.mkstemp(prefix="vfw_", suffix=".json")
  os.close(fd)
  env = dict(os.environ)
  env["PYTHONPATH"] = core.REPO + os.pathsep + VERIF + os.pathsep + env.get("PYTHONPATH", "")
  env["PYTHONHASHSEED"] = "0"
  hard = float(job.get("timeout", 300)) * 1.5 + 60
  t0 = time.time()
  try:
    p = subprocess.run([PY, "-m", "vf.worker", out, json.dumps(job)], cwd=VERIF, env=env,
                       stdout=subprocess.PIPE, stderr=subprocess.STDOUT, timeout=hard)
    with open(out) as f:
      txt = f.read()
    res = json.loads(txt) if txt.strip() else {"job": job, "error": "worker wrote nothing: " + p.stdout.decode()[-1500:], "verdicts": []}
  except subprocess.TimeoutExpired:
    res = {"job": job, "error": "worker exceeded hard timeout %.0fs" % hard, "verdicts": []}
  finally:
    try:
      os.unlink(out)
    except OSError:
      pass
  res.setdefault("wall_s", round(time.time() - t0, 3))
  return res


def run_replay(prop, harness, case, timeout=120):
  """re-execute one concrete case in a plain python process (no CrossHair)"""
  env = dict(os.environ)
  env["PYTHONPATH"] = core.REPO + os.pathsep + VERIF + os.pathsep + env.get("PYTHONPATH", "")
  try:
    p = subprocess.run([PY, "-m", "vf.replay", prop, harness, json.dumps(case)], cwd=VERIF, env=env,
                       stdout=subprocess.PIPE, stderr=subprocess.PIPE, timeout=timeout)
  except subprocess.TimeoutExpired:
    return {"ran": False, "error": "replay timed out"}
  last = [l for l in p.stdout.decode().splitlines() if l.startswith("REPLAY-RESULT ")]
  if not last:
    return {"ran": False, "error": (p.stderr.decode() or p.stdout.decode())[-1500:]}
  return json.loads(last[-1][len("REPLAY-RESULT "):])


def write_replay_file(prop_id, n, harness, case, sig, detail):
  d = os.path.join(EVDIR, "replays")
  os.makedirs(d, exist_ok=True)
  path = os.path.join(d, "%s-%d.json" % (prop_id, n))
  with open(path, "w") as f:
    json.dump({"property": prop_id, "harness": harness, "case": case, "sig": sig, "detail": detail}, f, indent=1)
  return path


def main(argv=None):
  ap = argparse.ArgumentParser()
  ap.add_argument("prop")
  ap.add_argument("--tier", default=os.environ.get("VERIF_TIER") or "quick")
  ap.add_argument("--replay")
  ap.add_argument("--jobs", type=int, default=int(os.environ.get("VERIF_JOBS", "16")))
  ap.add_argument("--only", help="run only harnesses whose name contains this")
  a = ap.parse_args(argv)
  pid = a.prop.upper()
  modname = pid.lower()
  tier = a.tier if a.tier in ("quick", "thorough") else "quick"
  seed = int(os.environ.get("VERIF_SEED", "0") or 0)

  if a.replay:
    with open(a.replay) as f:
      r = json.load(f)
    if r.get("engine") == "E2":
      from vf.e2 import replay as e2replay
      return e2replay.replay_file(r)
    rr = run_replay(modname, r["harness"], r["case"])
    print(json.dumps(rr, indent=1))
    if not rr.get("ran"):
      return 2
    return 0 if rr.get("ok") else 1

  mod = importlib.import_module("vf.props." + modname)
  t0 = time.time()
  known = core.load_known(pid)
  jobs = []
  for j in mod.jobs(tier):
    if a.only and a.only not in j["harness"]:
      continue
    j = dict(j)
    j["prop"] = modname
    j["known"] = sorted(known)
    jobs.append(j)
  # reachability twins: one per harness (first partition of each)
  twins = {}
  for j in jobs:
    if j["harness"] not in twins and not j.get("no_twin"):
      t = dict(j)
      t["twin"] = True
      t["timeout"] = min(120, j.get("timeout", 300))
      twins[j["harness"]] = t
  all_jobs = list(twins.values()) + jobs
  # longest first
  order = sorted(range(len(all_jobs)), key=lambda i: -(all_jobs[i].get("expected") or 0))
  results = [None] * len(all_jobs)
  with ThreadPoolExecutor(max_workers=a.jobs) as ex:
    futs = {i: ex.submit(run_worker, all_jobs[i]) for i in order}
    for i, f in futs.items():
      results[i] = f.result()

  inconclusive = []
  violations = []
  known_hits = {}
  paths = nontrivial = 0
  samples = []
  conditions = confirmed = 0
  partitions = []
  tags = {}
  solver_s = 0.0
  twin_ok = 0
  vio_n = 0

  def handle_failure(harness, fail):
    nonlocal vio_n
    rr = run_replay(modname, harness, fail["case"])
    if not rr.get("ran"):
      inconclusive.append("counterexample of %s did not run in replay: %s" % (harness, rr.get("error")))
      return
    if rr.get("ok"):
      inconclusive.append("counterexample of %s %s did not replay (passes outside CrossHair)" % (harness, fail["case"]))
      return
    sig = rr.get("sig")
    if sig in known:
      k = known_hits.setdefault(sig, {"count": 0, "case": fail["case"], "detail": rr.get("detail")})
      k["count"] += 1
      return
    vio_n += 1
    path = write_replay_file(pid, vio_n, harness, fail["case"], sig, rr.get("detail"))
    violations.append({"harness": harness, "case": fail["case"], "sig": sig, "detail": rr.get("detail"), "replay": path})

  for job, res in zip(all_jobs, results):
    h = job["harness"]
    tag = "%s%s %s" % (h, " [twin]" if job.get("twin") else "", json.dumps(job.get("part") or {}, sort_keys=True))
    solver_s += res.get("wall_s", 0)
    if res.get("error"):
      inconclusive.append("%s: worker error: %s" % (tag, res["error"][-600:]))
      continue
    rec = res.get("rec", {})
    states = [v["state"] for v in res["verdicts"]]
    if job.get("twin"):
      # must be violated and the case must run in replay
      if "POST_FAIL" in states and rec.get("twin_case") is not None:
        rr = run_replay(modname, h, rec["twin_case"])
        if rr.get("ran"):
          twin_ok += 1
        else:
          inconclusive.append("%s: twin case does not run in replay: %s" % (tag, rr.get("error")))
      else:
        inconclusive.append("%s: reachability twin not violated (vacuous harness?) states=%s" % (tag, states))
      continue
    conditions += len(states)
    partitions.append({"harness": h, "part": job.get("part") or {}, "expected": job.get("expected"),
                       "paths": rec.get("paths"), "verdicts": states, "wall_s": res.get("wall_s")})
    paths += rec.get("paths", 0)
    nontrivial += rec.get("nontrivial", 0)
    for s in rec.get("samples", []):
      if len(samples) < 6:
        samples.append({"harness": h, "case": s})
    for t, n in rec.get("tags", {}).items():
      tags[t] = tags.get(t, 0) + n
    for sig, k in rec.get("known", {}).items():
      # a listed signature was hit inside CrossHair: confirm on the real code outside CrossHair
      rr = run_replay(modname, h, k["case"])
      if rr.get("ran") and not rr.get("ok") and rr.get("sig") == sig:
        kk = known_hits.setdefault(sig, {"count": 0, "case": k["case"], "detail": rr.get("detail")})
        kk["count"] += k["count"]
      else:
        inconclusive.append("%s: known-finding case %s did not replay with signature %s (%s)" % (tag, k["case"], sig, rr))
    if not states:
      inconclusive.append("%s: no condition analysed" % tag)
      continue
    bad = [v for v in res["verdicts"] if v["state"] != "CONFIRMED"]
    if os.environ.get("VERIF_COLLECT_ALL"):
      for fl in rec.get("failures", []):
        handle_failure(h, fl)
    if not bad:
      confirmed += len(states)
      exp = job.get("expected")
      if exp is not None and rec.get("paths") != exp:
        inconclusive.append("%s: CONFIRMED but %s harness invocations, expected %s tuples" % (tag, rec.get("paths"), exp))
      continue
    for v in bad:
      if v["state"] == "POST_FAIL":
        fails = rec.get("failures", [])
        if not fails:
          inconclusive.append("%s: POST_FAIL without recorded case: %s" % (tag, v["message"][:300]))
        for fl in fails[:3]:
          if not any(v2["harness"] == h and v2["sig"] == fl["sig"] for v2 in violations):
            handle_failure(h, fl)
      else:
        inconclusive.append("%s: %s %s" % (tag, v["state"], v["message"][:400]))

  extra = None
  if hasattr(mod, "solver_part"):
    try:
      extra = mod.solver_part(tier, known)
    except Exception as ex:     # a translation or harness error is never a violation
      import traceback
      extra = {"violations": [], "inconclusive": ["solver part failed: %s: %s" % (type(ex).__name__, str(ex)[:500] or traceback.format_exc()[-500:])],
               "coverage": {}, "samples": [], "evaluations": 0, "distinct_nontrivial": 0}
    for v in extra.get("violations", []):
      if v.get("sig") in known:
        k = known_hits.setdefault(v["sig"], {"count": 0, "case": v.get("case"), "detail": v.get("detail")})
        k["count"] += 1
      else:
        vio_n += 1
        path = write_replay_file(pid, vio_n, v.get("harness", "solver"), v.get("case"), v.get("sig"), v.get("detail"))
        if v.get("replay_extra"):
          with open(path) as f:
            d = json.load(f)
          d.update(v["replay_extra"])
          with open(path, "w") as f:
            json.dump(d, f, indent=1)
        v = dict(v)
        v["replay"] = path
        violations.append(v)
    inconclusive.extend(extra.get("inconclusive", []))
    solver_s += extra.get("solver_s", 0)

  wall = time.time() - t0
  level = getattr(mod, "LEVEL", "other")
  cov = {
    "explanation": mod.EXPLANATION,
    "evaluations": paths + (extra or {}).get("evaluations", 0),
    "distinct_nontrivial": nontrivial + (extra or {}).get("distinct_nontrivial", 0),
    "rule": mod.RULE,
    "samples": samples + (extra or {}).get("samples", []),
    "exhaustive": not inconclusive,
    "functions_executed": mod.FUNCTIONS,
    "bounds": mod.bounds(tier),
    "outside_claim": getattr(mod, "OUTSIDE", []),
    "conditions_checked": conditions,
    "conditions_confirmed": confirmed,
    "reachability_twins_violated_as_required": twin_ok,
    "partitions": partitions,
    "oracle_clause_counts": tags,
    "known_findings_hit": known_hits,
    "solver_cpu_wall_s_summed": round(solver_s, 2),
    "inconclusive": inconclusive,
    "violations": violations,
  }
  if extra:
    cov.update(extra.get("coverage", {}))
  ev = {
    "property_id": pid,
    "tier": tier,
    "seed": seed,
    "level": level,
    "coverage": cov,
    "assumptions": mod.ASSUMPTIONS,
    "wall_s": round(wall, 2),
    "violations": len(violations),
  }
  os.makedirs(EVDIR, exist_ok=True)
  with open(os.path.join(EVDIR, pid + ".json"), "w") as f:
    json.dump(ev, f, indent=1)

  for sig, k in sorted(known_hits.items()):
    print("KNOWN-FINDING: property=%s %s [signature %s, %d case(s), e.g. %s]" % (pid, known.get(sig, ""), sig, k["count"], k["case"]))
  for v in violations:
    print("VIOLATION property=%s replay=%s" % (pid, v["replay"]))
    print("  harness=%s case=%s signature=%s" % (v.get("harness"), v.get("case"), v.get("sig")))
    print("  %s" % (v.get("detail"),))
  if violations:
    return 1
  if inconclusive:
    for m in inconclusive[:20]:
      print("INCONCLUSIVE property=%s %s" % (pid, m))
    return 2
  print("OK property=%s tier=%s conditions=%d confirmed=%d paths=%d nontrivial=%d wall=%.1fs" % (
    pid, tier, conditions, confirmed, cov["evaluations"], cov["distinct_nontrivial"], wall))
  return 0


if __name__ == "__main__":
  try:
    rc = main()
  except SystemExit:
    raise
  except BaseException as ex:    # exit code 1 is reserved for replayed violations
    import traceback
    traceback.print_exc()
    print("INCONCLUSIVE harness error: %s: %s" % (type(ex).__name__, str(ex)[:300]))
    rc = 2
  sys.exit(rc)
